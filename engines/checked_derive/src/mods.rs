// generated from /repo/src/lib.rs by lib/e1.py — do not edit
#[path = "/var/tmp/repo8/src/feature/mod.rs"]
mod feature;
#[path = "/var/tmp/repo8/src/generator/mod.rs"]
mod generator;
#[path = "/var/tmp/repo8/src/parser/mod.rs"]
mod parser;
#[cfg(enum_tools_verif)]
#[path = "/var/tmp/repo8/src/verif_seam.rs"]
mod verif_seam;
