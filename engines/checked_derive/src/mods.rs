// generated from /repo/src/lib.rs by lib/e1.py — do not edit
#[path = "/repo/src/feature/mod.rs"]
mod feature;
#[path = "/repo/src/generator/mod.rs"]
mod generator;
#[path = "/repo/src/parser/mod.rs"]
mod parser;
#[cfg(enum_tools_verif)]
#[path = "/repo/src/verif_seam.rs"]
mod verif_seam;
