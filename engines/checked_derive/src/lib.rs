//! E4 `EnumToolsChecked` (DESIGN.md §2.4): parse -> generate (both /repo's code) -> rewrite.
//!
//!   ::core::mem::transmute(x)      -> __verif_to_enum_<E>(x): compares x with `E::V as repr` of every variant
//!                                     (the compiler's discriminants), reports `VERIF-UB transmute x` otherwise
//!   .unwrap_unchecked()            -> .expect("VERIF-UB unwrap_unchecked")
//!   ::core::mem::MaybeUninit       -> ::verif_rt::CheckedUninit (assume_init reports unless written)
//!
//! If an `unsafe` block of the expansion contains a call this pass does not know, the derive emits a
//! `compile_error!("VERIF-E4-UNAVAILABLE …")`: the monitored half of C02 is then unavailable (exit 2),
//! never a verdict.
#![allow(dead_code, unused_imports, clippy::all)]

include!("mods.rs");

use proc_macro2::{Delimiter, Group, Ident, Punct, Spacing, Span, TokenStream, TokenTree};
use proc_macro_error::proc_macro_error;
use quote::{format_ident, quote};
use syn::{parse_macro_input, DeriveInput};

const KNOWN_IN_UNSAFE: [&str; 14] = [
    "wrapping_add", "wrapping_sub",
    "transmute", "unwrap_unchecked", "assume_init", "next", "next_back", "iter", "find", "contains", "start", "end", "Some", "map",
];

struct Rw {
    to_enum: Ident,
    unknown: Vec<String>,
    transmutes: usize,
    unwraps: usize,
    uninits: usize,
    unsafe_blocks: usize,
}

fn is_p(t: &TokenTree, c: char) -> bool {
    matches!(t, TokenTree::Punct(p) if p.as_char() == c)
}
fn is_i(t: &TokenTree, s: &str) -> bool {
    matches!(t, TokenTree::Ident(i) if i == s)
}

/// does v[i..] start with `:: core :: mem :: <last>` ? returns number of tokens
fn core_mem_path(v: &[TokenTree], i: usize, last: &str) -> Option<usize> {
    // :: core :: mem :: last  = 2+1+2+1+2+1 = 9 tokens
    if i + 9 <= v.len()
        && is_p(&v[i], ':') && is_p(&v[i + 1], ':') && is_i(&v[i + 2], "core")
        && is_p(&v[i + 3], ':') && is_p(&v[i + 4], ':') && is_i(&v[i + 5], "mem")
        && is_p(&v[i + 6], ':') && is_p(&v[i + 7], ':') && is_i(&v[i + 8], last)
    {
        Some(9)
    } else {
        None
    }
}

fn scan_unsafe(rw: &mut Rw, ts: TokenStream) {
    let v: Vec<TokenTree> = ts.into_iter().collect();
    for i in 0..v.len() {
        match &v[i] {
            TokenTree::Ident(id) => {
                let next_is_call = matches!(v.get(i + 1), Some(TokenTree::Group(g)) if g.delimiter() == Delimiter::Parenthesis);
                if next_is_call && !KNOWN_IN_UNSAFE.contains(&id.to_string().as_str()) {
                    rw.unknown.push(id.to_string());
                }
            }
            TokenTree::Group(g) => scan_unsafe(rw, g.stream()),
            _ => {}
        }
    }
}

fn rewrite(rw: &mut Rw, ts: TokenStream) -> TokenStream {
    let v: Vec<TokenTree> = ts.into_iter().collect();
    let mut out: Vec<TokenTree> = Vec::with_capacity(v.len());
    let mut i = 0;
    while i < v.len() {
        if let Some(n) = core_mem_path(&v, i, "transmute") {
            rw.transmutes += 1;
            out.push(TokenTree::Ident(rw.to_enum.clone()));
            i += n;
            // an explicit turbofish `transmute::<A, B>(x)` carries no information the monitor needs: skip `:: < … >`
            if i + 2 < v.len() && is_p(&v[i], ':') && is_p(&v[i + 1], ':') && is_p(&v[i + 2], '<') {
                let mut depth = 0i32;
                let mut k = i + 2;
                while k < v.len() {
                    if is_p(&v[k], '<') {
                        depth += 1;
                    } else if is_p(&v[k], '>') {
                        depth -= 1;
                        if depth == 0 {
                            break;
                        }
                    }
                    k += 1;
                }
                if k < v.len() {
                    i = k + 1;
                } else {
                    rw.unknown.push("transmute with an unbalanced turbofish".into());
                }
            }
            continue;
        }
        if let Some(n) = core_mem_path(&v, i, "MaybeUninit") {
            rw.uninits += 1;
            out.extend(quote!(::verif_rt::CheckedUninit));
            i += n;
            continue;
        }
        if is_i(&v[i], "unwrap_unchecked") && i > 0 && is_p(&v[i - 1], '.') {
            rw.unwraps += 1;
            out.push(TokenTree::Ident(Ident::new("expect", Span::call_site())));
            // replace the `()` argument list
            if let Some(TokenTree::Group(g)) = v.get(i + 1) {
                if g.delimiter() == Delimiter::Parenthesis && g.stream().is_empty() {
                    out.push(TokenTree::Group(Group::new(Delimiter::Parenthesis, quote!("VERIF-UB unwrap_unchecked"))));
                    i += 2;
                    continue;
                }
            }
            rw.unknown.push("unwrap_unchecked with arguments".into());
            i += 1;
            continue;
        }
        if is_i(&v[i], "unsafe") {
            if let Some(TokenTree::Group(g)) = v.get(i + 1) {
                if g.delimiter() == Delimiter::Brace {
                    rw.unsafe_blocks += 1;
                    scan_unsafe(rw, g.stream());
                }
            }
        }
        match &v[i] {
            TokenTree::Group(g) => {
                let inner = rewrite(rw, g.stream());
                let mut ng = Group::new(g.delimiter(), inner);
                ng.set_span(g.span());
                out.push(TokenTree::Group(ng));
            }
            t => out.push(t.clone()),
        }
        i += 1;
    }
    out.into_iter().collect()
}

#[proc_macro_error]
#[proc_macro_derive(EnumToolsChecked, attributes(enum_tools))]
pub fn enum_tools_checked(tokens: proc_macro::TokenStream) -> proc_macro::TokenStream {
    let input = parse_macro_input!(tokens as DeriveInput);
    let (derive, features) = generator::Derive::parse(input);
    let ident = derive.ident_enum.clone();
    let repr = derive.repr.clone();
    let n = derive.values.len();
    let vars: Vec<Ident> = derive.values.iter().map(|(_, (v, _))| v.clone()).collect();
    let expansion = derive.generate(features);

    let to_enum = format_ident!("__verif_to_enum_{}", ident);
    let mut rw = Rw { to_enum: to_enum.clone(), unknown: Vec::new(), transmutes: 0, unwraps: 0, uninits: 0, unsafe_blocks: 0 };
    let rewritten = rewrite(&mut rw, expansion);
    if !rw.unknown.is_empty() {
        let msg = format!("VERIF-E4-UNAVAILABLE unknown operation inside an unsafe block of the expansion: {:?}", rw.unknown);
        return quote!(compile_error!(#msg);).into();
    }
    // table in the parser's order; looked up by the COMPILER's discriminants (`E::V as repr`), with a
    // linear fallback so that a wrong parser order can only cost time, never hide a declared value
    let monitor = quote! {
        #[allow(non_snake_case, dead_code)]
        #[inline(never)]
        fn #to_enum(x: #repr) -> #ident {
            static T: [#ident; #n] = [#(#ident::#vars),*];
            let mut lo = 0usize;
            let mut hi = #n;
            while lo < hi {
                let mid = lo + (hi - lo) / 2;
                let d = T[mid] as #repr;
                if d == x {
                    return T[mid];
                } else if d < x {
                    lo = mid + 1;
                } else {
                    hi = mid;
                }
            }
            let mut i = 0usize;
            while i < #n {
                if T[i] as #repr == x {
                    return T[i];
                }
                i += 1;
            }
            ::verif_rt::ub("transmute", x as i128)
        }
    };
    quote!(#rewritten #monitor).into()
}
