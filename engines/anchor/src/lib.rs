pub use enum_tools::EnumTools;
