//! Runtime for E4 `EnumToolsChecked`: monitors for the unchecked assumptions of the generated code.
#![no_std]

/// Reports a false unchecked assumption. A panic (not UB): the explorer records it as an observation.
#[cold]
#[inline(never)]
pub fn ub(kind: &'static str, value: i128) -> ! {
    panic!("VERIF-UB {} {}", kind, value)
}

/// Stand-in for `core::mem::MaybeUninit<T>` that knows whether it was written.
pub struct CheckedUninit<T: Copy> {
    v: Option<T>,
}

impl<T: Copy> CheckedUninit<T> {
    #[inline]
    pub fn uninit() -> Self {
        CheckedUninit { v: None }
    }
    #[inline]
    pub fn new(v: T) -> Self {
        CheckedUninit { v: Some(v) }
    }
    #[inline]
    pub fn write(&mut self, v: T) -> &mut T {
        self.v = Some(v);
        self.v.as_mut().unwrap()
    }
    /// # Safety
    /// none required: reports instead of reading uninitialised memory
    #[inline]
    pub unsafe fn assume_init(self) -> T {
        match self.v {
            Some(v) => v,
            None => ub("assume_init", 0),
        }
    }
}
