//! E1 `xpand`: the real generator of /repo, in-process (DESIGN.md §2.1).
//!
//! modes
//!   xpand expand            stdin: declarations separated by a line "\x1e"; stdout: per declaration
//!                           "OK\n<tokens>\n\x1e" | "ERR\n<messages>\n\x1e" | "PANIC\n<message>\n\x1e"
//!   xpand items             like expand, but prints the item split of each expansion
//!   xpand space <file> ...  enumerate the configuration space for the archetype enum in <file>
#![allow(dead_code, unused_imports, clippy::all)]

include!("mods.rs");

mod space;
mod split;
#[cfg(enum_tools_verif)]
mod sched;

use proc_macro2::TokenStream;
use std::io::{Read, Write};
use std::panic::{catch_unwind, AssertUnwindSafe};

pub enum Expansion {
    Ok(TokenStream),
    Err(Vec<String>),
    Panic(String),
}

/// parse -> Derive::parse -> Derive::generate, exactly what `enum_tools()` in /repo/src/lib.rs does.
pub fn expand_input(input: syn::DeriveInput) -> Expansion {
    let r = catch_unwind(AssertUnwindSafe(|| {
        proc_macro_error::verif_entry_point(AssertUnwindSafe(move || {
            let (derive, features) = generator::Derive::parse(input);
            derive.generate(features)
        }))
    }));
    match r {
        Ok(Ok(ts)) => Expansion::Ok(ts),
        Ok(Err(msgs)) => Expansion::Err(msgs),
        Err(e) => {
            let m = if let Some(s) = e.downcast_ref::<&str>() {
                s.to_string()
            } else if let Some(s) = e.downcast_ref::<String>() {
                s.clone()
            } else {
                "panic".to_string()
            };
            Expansion::Panic(m)
        }
    }
}

pub fn expand_str(src: &str) -> Expansion {
    match syn::parse_str::<syn::DeriveInput>(src) {
        Ok(input) => expand_input(input),
        Err(e) => Expansion::Err(vec![format!("xpand: input does not parse as a derive input: {e}")]),
    }
}

/// Flatten a token stream for comparison between proc_macro2's fallback and the compiler's pretty-printed
/// expansion: None-delimited groups are transparent, a comma directly before a closing delimiter is
/// dropped, string literals are compared by value, `///` docs and `#[doc = r".."]` coincide.
fn flatten(ts: TokenStream, out: &mut Vec<String>) {
    use proc_macro2::{Delimiter, TokenTree};
    for t in ts {
        match t {
            TokenTree::Group(g) => {
                let (a, b) = match g.delimiter() {
                    Delimiter::Parenthesis => ("(", ")"),
                    Delimiter::Brace => ("{", "}"),
                    Delimiter::Bracket => ("[", "]"),
                    Delimiter::None => ("", ""),
                };
                if !a.is_empty() {
                    // the pretty printer drops the trailing comma of a where clause (`where F: X, {`)
                    if a == "{" && out.last().map(|s| s == ",").unwrap_or(false) {
                        out.pop();
                    }
                    out.push(a.to_string());
                }
                flatten(g.stream(), out);
                if !b.is_empty() {
                    if out.last().map(|s| s == ",").unwrap_or(false) {
                        out.pop();
                    }
                    out.push(b.to_string());
                }
            }
            TokenTree::Ident(i) => out.push(i.to_string()),
            TokenTree::Punct(p) => out.push(p.as_char().to_string()),
            TokenTree::Literal(l) => {
                let s = l.to_string();
                if s.starts_with('"') || s.starts_with("r\"") || s.starts_with("r#") {
                    match syn::parse_str::<syn::LitStr>(&s) {
                        Ok(ls) => out.push(format!("str:{:?}", ls.value())),
                        Err(_) => out.push(s),
                    }
                } else {
                    out.push(s)
                }
            }
        }
    }
}

fn main() {
    std::panic::set_hook(Box::new(|_| {}));
    let args: Vec<String> = std::env::args().collect();
    let mode = args.get(1).map(|s| s.as_str()).unwrap_or("");
    match mode {
        "expand" | "items" => {
            let mut inp = String::new();
            std::io::stdin().read_to_string(&mut inp).unwrap();
            let so = std::io::stdout();
            let mut o = std::io::BufWriter::new(so.lock());
            for decl in inp.split("\n\u{1e}\n") {
                if decl.trim().is_empty() {
                    continue;
                }
                match expand_str(decl) {
                    Expansion::Ok(ts) => {
                        if mode == "expand" {
                            writeln!(o, "OK\n{}", ts).unwrap();
                        } else {
                            match split::split(ts) {
                                Ok(items) => {
                                    writeln!(o, "OK").unwrap();
                                    for it in items {
                                        writeln!(
                                            o,
                                            "ITEM\t{}\t{}\t{}\t{}\t{}\t{}",
                                            it.kind, it.name, it.vis, it.sig, it.body, it.owner
                                        )
                                        .unwrap();
                                    }
                                }
                                Err(e) => writeln!(o, "UNPARSED\n{}", e).unwrap(),
                            }
                        }
                    }
                    Expansion::Err(m) => writeln!(o, "ERR\n{}", m.join("\n")).unwrap(),
                    Expansion::Panic(m) => writeln!(o, "PANIC\n{}", m).unwrap(),
                }
                writeln!(o, "\u{1e}").unwrap();
            }
        }
        "flat" => {
            // normalised flat token list of each input text (token-level conformance, DESIGN.md §12.6)
            let mut inp = String::new();
            std::io::stdin().read_to_string(&mut inp).unwrap();
            let so = std::io::stdout();
            let mut o = std::io::BufWriter::new(so.lock());
            for text in inp.split("\n\u{1e}\n") {
                if text.trim().is_empty() {
                    continue;
                }
                match text.parse::<TokenStream>() {
                    Ok(ts) => {
                        let mut v = Vec::new();
                        flatten(ts, &mut v);
                        writeln!(o, "OK\n{}", v.join("\n")).unwrap();
                    }
                    Err(e) => writeln!(o, "ERR\n{e}").unwrap(),
                }
                writeln!(o, "\u{1e}").unwrap();
            }
        }
        "space" => space::main(&args[2..]),
        #[cfg(enum_tools_verif)]
        "orders" => sched::main(&args[2..]),
        _ => {
            eprintln!("usage: xpand expand|items|space ...");
            std::process::exit(2);
        }
    }
}
