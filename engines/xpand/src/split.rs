//! Token-tree splitter for the derive's flat expansion (DESIGN.md §2.1 "E1's item splitter").
//!
//! `impl E where … { members } (impl Trait for X { … } | attrs vis struct X { … })*`
//! Walks token trees only. Anything not consumed by the productions is reported as `Err(unparsed)`;
//! callers degrade to "machinery unavailable" — never to a violation.

use proc_macro2::{Delimiter, Spacing, TokenStream, TokenTree};

#[derive(Clone, Debug)]
pub struct Item {
    /// "const" | "fn" | "const fn" | "struct" | "impl" (trait impl) | "inherent" (header of the inherent impl)
    pub kind: String,
    /// member / struct name; for trait impls the header text ("impl … for …")
    pub name: String,
    /// visibility tokens as text ("" = inherited)
    pub vis: String,
    /// signature text (without attributes, visibility and body)
    pub sig: String,
    /// body text (fn body, const initialiser, struct fields, impl body)
    pub body: String,
    /// for members of an inherent impl: the self type of that impl ("E", "EIter", …); empty otherwise
    pub owner: String,
}

fn ts_string(v: &[TokenTree]) -> String {
    let ts: TokenStream = v.iter().cloned().collect();
    ts.to_string()
}

fn is_punct(t: &TokenTree, c: char) -> bool {
    matches!(t, TokenTree::Punct(p) if p.as_char() == c)
}

fn is_ident(t: &TokenTree, s: &str) -> bool {
    matches!(t, TokenTree::Ident(i) if i == s)
}

/// skip `#[...]` attributes starting at i; returns new index
fn skip_attrs(v: &[TokenTree], mut i: usize) -> usize {
    while i + 1 < v.len() && is_punct(&v[i], '#') {
        if let TokenTree::Group(g) = &v[i + 1] {
            if g.delimiter() == Delimiter::Bracket {
                i += 2;
                continue;
            }
        }
        break;
    }
    i
}

/// parse optional visibility at i; returns (text, new index)
fn take_vis(v: &[TokenTree], i: usize) -> (String, usize) {
    if i < v.len() && is_ident(&v[i], "pub") {
        if i + 1 < v.len() {
            if let TokenTree::Group(g) = &v[i + 1] {
                if g.delimiter() == Delimiter::Parenthesis {
                    return (ts_string(&v[i..i + 2]), i + 2);
                }
            }
        }
        return ("pub".to_string(), i + 1);
    }
    (String::new(), i)
}

fn split_members(ts: TokenStream, owner: &str) -> Result<Vec<Item>, String> {
    let v: Vec<TokenTree> = ts.into_iter().collect();
    let mut out = Vec::new();
    let mut i = 0;
    while i < v.len() {
        i = skip_attrs(&v, i);
        if i >= v.len() {
            break;
        }
        let (vis, j) = take_vis(&v, i);
        i = j;
        if i >= v.len() {
            return Err("member: tokens end after visibility".into());
        }
        if is_ident(&v[i], "const") && i + 1 < v.len() && !is_ident(&v[i + 1], "fn") {
            // const NAME : T = expr ;
            let name = match &v[i + 1] {
                TokenTree::Ident(id) => id.to_string(),
                t => return Err(format!("member const: expected a name, found `{t}`")),
            };
            let mut eq = None;
            let mut k = i + 2;
            while k < v.len() {
                if is_punct(&v[k], '=') {
                    // `..=` inside the type cannot occur before the initialiser's `=` at depth 0 except in
                    // const generics, which the derive does not emit
                    eq = Some(k);
                    break;
                }
                if is_punct(&v[k], ';') {
                    break;
                }
                k += 1;
            }
            let eq = eq.ok_or_else(|| format!("member const {name}: no `=`"))?;
            let mut semi = None;
            let mut k = eq + 1;
            while k < v.len() {
                if is_punct(&v[k], ';') {
                    semi = Some(k);
                    break;
                }
                k += 1;
            }
            let semi = semi.ok_or_else(|| format!("member const {name}: no `;`"))?;
            out.push(Item {
                kind: "const".into(),
                name,
                vis,
                sig: ts_string(&v[i..eq]),
                body: ts_string(&v[eq + 1..semi]),
                owner: owner.to_string(),
            });
            i = semi + 1;
        } else if is_ident(&v[i], "fn") || (is_ident(&v[i], "const") && i + 1 < v.len() && is_ident(&v[i + 1], "fn")) {
            let is_const = is_ident(&v[i], "const");
            let fn_at = if is_const { i + 1 } else { i };
            let name = match v.get(fn_at + 1) {
                Some(TokenTree::Ident(id)) => id.to_string(),
                other => return Err(format!("member fn: expected a name, found {other:?}")),
            };
            // body = first brace group after the name
            let mut k = fn_at + 2;
            let mut body_at = None;
            while k < v.len() {
                if let TokenTree::Group(g) = &v[k] {
                    if g.delimiter() == Delimiter::Brace {
                        body_at = Some(k);
                        break;
                    }
                }
                k += 1;
            }
            let b = body_at.ok_or_else(|| format!("member fn {name}: no body"))?;
            out.push(Item {
                kind: if is_const { "const fn".into() } else { "fn".into() },
                name,
                vis,
                sig: ts_string(&v[i..b]),
                body: v[b].to_string(),
                owner: owner.to_string(),
            });
            i = b + 1;
        } else {
            return Err(format!("member: unexpected token `{}`", v[i]));
        }
    }
    Ok(out)
}

pub fn split(ts: TokenStream) -> Result<Vec<Item>, String> {
    let mut out = Vec::new();
    split_into(ts, &mut out)?;
    Ok(out)
}

fn split_into(ts: TokenStream, out: &mut Vec<Item>) -> Result<(), String> {
    let v: Vec<TokenTree> = ts.into_iter().collect();
    let mut i = 0;
    while i < v.len() {
        let start = i;
        i = skip_attrs(&v, i);
        let (vis, j) = take_vis(&v, i);
        i = j;
        if i >= v.len() {
            return Err("top level: tokens end inside an item".into());
        }
        if is_ident(&v[i], "impl") {
            let mut k = i + 1;
            let mut body_at = None;
            let mut has_for = false;
            while k < v.len() {
                if is_ident(&v[k], "for") {
                    has_for = true;
                }
                if let TokenTree::Group(g) = &v[k] {
                    if g.delimiter() == Delimiter::Brace {
                        body_at = Some(k);
                        break;
                    }
                }
                k += 1;
            }
            let b = body_at.ok_or("top level: impl without body")?;
            let header = ts_string(&v[i..b]);
            if !has_for {
                // self type = the tokens after `impl` up to `where` (the derive emits no generics on inherent impls)
                let mut owner_toks: Vec<TokenTree> = Vec::new();
                for t in &v[i + 1..b] {
                    if is_ident(t, "where") {
                        break;
                    }
                    owner_toks.push(t.clone());
                }
                let owner = ts_string(&owner_toks);
                out.push(Item { kind: "inherent".into(), name: header.clone(), vis: String::new(), sig: header, body: String::new(), owner: owner.clone() });
                if let TokenTree::Group(g) = &v[b] {
                    out.extend(split_members(g.stream(), &owner)?);
                }
            } else {
                out.push(Item { kind: "impl".into(), name: header.clone(), vis: String::new(), sig: header, body: v[b].to_string(), owner: String::new() });
            }
            i = b + 1;
        } else if is_ident(&v[i], "struct") {
            let name = match v.get(i + 1) {
                Some(TokenTree::Ident(id)) => id.to_string(),
                other => return Err(format!("top level struct: expected a name, found {other:?}")),
            };
            let b = match v.get(i + 2) {
                Some(TokenTree::Group(g)) if g.delimiter() == Delimiter::Brace => i + 2,
                other => return Err(format!("top level struct {name}: expected fields, found {other:?}")),
            };
            out.push(Item { kind: "struct".into(), name: name.clone(), vis, sig: format!("struct {name}"), body: v[b].to_string(), owner: String::new() });
            i = b + 1;
        } else if is_ident(&v[i], "use") {
            // `use path;` — recorded (C16 cares about names brought into the user's module)
            let mut k = i + 1;
            while k < v.len() && !is_punct(&v[k], ';') {
                k += 1;
            }
            if k >= v.len() {
                return Err("top level: `use` without `;`".into());
            }
            out.push(Item { kind: "use".into(), name: ts_string(&v[i + 1..k]), vis, sig: ts_string(&v[i..k]), body: String::new(), owner: String::new() });
            i = k + 1;
        } else if is_ident(&v[i], "const") && matches!(v.get(i + 1), Some(TokenTree::Ident(id)) if id == "_") {
            // `const _: () = { items };` — an anonymous scope holding further items
            let mut k = i + 2;
            let mut blk = None;
            while k < v.len() {
                if let TokenTree::Group(g) = &v[k] {
                    if g.delimiter() == Delimiter::Brace {
                        blk = Some(k);
                        break;
                    }
                }
                if is_punct(&v[k], ';') {
                    break;
                }
                k += 1;
            }
            let b = blk.ok_or("top level: `const _` without a block")?;
            if let TokenTree::Group(g) = &v[b] {
                split_into(g.stream(), out)?;
            }
            i = b + 1;
            if i < v.len() && is_punct(&v[i], ';') {
                i += 1;
            }
        } else {
            return Err(format!("top level: unexpected token `{}` at {}", v[i], start));
        }
    }
    Ok(())
}

/// identifiers occurring in a token text (cheap tokenizer over the already-stringified tokens)
pub fn idents_of(text: &str, out: &mut Vec<String>) {
    let b = text.as_bytes();
    let mut i = 0;
    while i < b.len() {
        let c = b[i];
        if c == b'"' {
            // skip string literal
            i += 1;
            while i < b.len() && b[i] != b'"' {
                if b[i] == b'\\' {
                    i += 1;
                }
                i += 1;
            }
            i += 1;
        } else if c == b'_' || c.is_ascii_alphabetic() {
            let s = i;
            while i < b.len() && (b[i] == b'_' || b[i].is_ascii_alphanumeric()) {
                i += 1;
            }
            out.push(text[s..i].to_string());
        } else if c.is_ascii_digit() {
            // number incl. suffix
            while i < b.len() && (b[i] == b'_' || b[i].is_ascii_alphanumeric()) {
                i += 1;
            }
        } else {
            i += 1;
        }
    }
}
