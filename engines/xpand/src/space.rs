//! Explicit-state enumeration of the configuration space (DESIGN.md §2.1, §5 C09/C10/C15/C19).
//!
//! usage: xpand space <archetype.rs> [--gapless|--holes] [--low K] [--high K] [--threads N]
//!
//! The archetype file holds the enum *without* enum_tools attributes, e.g.
//!   #[repr(i8)] pub enum E { A = 0, B = 1, C = 2 }
//! For every legal configuration of the 17 user features the real generator is run, the expansion is
//! split into items, and per item the classes of (a) own text, (b) closure text (item + everything it
//! transitively refers to), (c) local context (item + signatures of what it refers to), (d) signature
//! are collected together with the first configuration exhibiting each class.
//! `--low K --high K2` thins the 12 on/off features to sets with <= K or >= K2 members (quick tier).

use crate::split::{idents_of, split, Item};
use crate::{expand_input, Expansion};
use std::collections::{BTreeMap, BTreeSet, HashMap};
use std::hash::{Hash, Hasher};
use std::sync::{Arc, Mutex};

pub const ONOFF: [&str; 12] = [
    "into", "MAX", "MIN", "next", "next_back", "try_from", "Debug", "Display", "Into", "IntoStr", "TryFrom", "names",
];
const NAMED: [&str; 11] = ["as_str", "from_str", "into", "MAX", "MIN", "next", "next_back", "try_from", "iter", "names", "range"];
const STR_MODES: [&str; 4] = ["", "auto", "match", "table"]; // "" = feature off

#[derive(Clone, Debug, PartialEq, Eq, Hash, PartialOrd, Ord)]
pub struct Cfg {
    pub as_str: u8,
    pub from_str: u8,
    pub from_str_tr: u8,
    /// 0 = off, else index+1 into iter mode list
    pub iter: u8,
    pub range: bool,
    pub onoff: u16,
}

fn iter_modes(gapless: bool) -> Vec<&'static str> {
    if gapless {
        vec!["auto", "range", "next_and_back", "table", "table_inline"]
    } else {
        vec!["auto", "next_and_back", "table", "table_inline"]
    }
}

impl Cfg {
    /// compact text understood by lib/e1.py: feature[:mode] separated by ','
    pub fn text(&self, gapless: bool) -> String {
        let mut v: Vec<String> = Vec::new();
        if self.as_str > 0 {
            v.push(format!("as_str:{}", STR_MODES[self.as_str as usize]));
        }
        if self.from_str > 0 {
            v.push(format!("from_str:{}", STR_MODES[self.from_str as usize]));
        }
        if self.from_str_tr > 0 {
            v.push(format!("FromStr:{}", STR_MODES[self.from_str_tr as usize]));
        }
        if self.iter > 0 {
            v.push(format!("iter:{}", iter_modes(gapless)[self.iter as usize - 1]));
        }
        if self.range {
            v.push("range".into());
        }
        for (i, f) in ONOFF.iter().enumerate() {
            if self.onoff >> i & 1 == 1 {
                v.push(f.to_string());
            }
        }
        v.join(",")
    }

    /// the inside of one #[enum_tools(...)] attribute; nameable items get unique `zz_` names
    pub fn attr(&self, gapless: bool) -> String {
        let mut v: Vec<String> = Vec::new();
        let named = |f: &str, mode: Option<&str>| -> String {
            let mut p: Vec<String> = Vec::new();
            if let Some(m) = mode {
                p.push(format!("mode = \"{m}\""));
            }
            if NAMED.contains(&f) {
                p.push(format!("name = \"zz_{f}\""));
            }
            if p.is_empty() {
                f.to_string()
            } else {
                format!("{f}({})", p.join(", "))
            }
        };
        if self.as_str > 0 {
            v.push(named("as_str", Some(STR_MODES[self.as_str as usize])));
        }
        if self.from_str > 0 {
            v.push(named("from_str", Some(STR_MODES[self.from_str as usize])));
        }
        if self.from_str_tr > 0 {
            v.push(named("FromStr", Some(STR_MODES[self.from_str_tr as usize])));
        }
        if self.iter > 0 {
            v.push(named("iter", Some(iter_modes(gapless)[self.iter as usize - 1])));
        }
        if self.range {
            v.push(named("range", None));
        }
        for (i, f) in ONOFF.iter().enumerate() {
            if self.onoff >> i & 1 == 1 {
                v.push(named(f, None));
            }
        }
        v.join(", ")
    }
}

fn h64(s: &str) -> u64 {
    // FNV-1a, stable across runs and processes
    let mut h: u64 = 0xcbf29ce484222325;
    for b in s.as_bytes() {
        h ^= *b as u64;
        h = h.wrapping_mul(0x100000001b3);
    }
    h
}

#[derive(Default)]
struct ClassInfo {
    count: u64,
    rep: Option<Cfg>,
    text: String,
}

#[derive(Default)]
struct Acc {
    configs: u64,
    accepted: u64,
    rejected: Vec<(Cfg, String)>,
    rejected_n: u64,
    unparsed: Vec<(Cfg, String)>,
    unparsed_n: u64,
    dup: Vec<(Cfg, String)>,
    open: Vec<(Cfg, String)>,
    infer_risk: Vec<(Cfg, String)>,
    /// item name -> class kind ("own" | "closure" | "local" | "sig" | "vis") -> hash -> info
    classes: BTreeMap<String, BTreeMap<&'static str, HashMap<u64, ClassInfo>>>,
    /// items the user did not ask for: name -> set of vis texts
    helper_vis: BTreeMap<String, BTreeSet<String>>,
    /// expansion-level: set of non-private item names that were not requested
    unrequested_public: Vec<(Cfg, String)>,
}

impl Acc {
    fn class(&mut self, item: &str, kind: &'static str, text: &str, cfg: &Cfg, keep_text: bool) {
        let e = self
            .classes
            .entry(item.to_string())
            .or_default()
            .entry(kind)
            .or_default()
            .entry(h64(text))
            .or_default();
        e.count += 1;
        if e.rep.is_none() || e.rep.as_ref().map_or(false, |r| cfg < r) {
            e.rep = Some(cfg.clone());
            if keep_text {
                e.text = text.to_string();
            }
        }
    }
    fn merge(&mut self, o: Acc) {
        self.configs += o.configs;
        self.accepted += o.accepted;
        self.rejected_n += o.rejected_n;
        self.unparsed_n += o.unparsed_n;
        for (a, b) in [
            (&mut self.rejected, o.rejected),
            (&mut self.unparsed, o.unparsed),
            (&mut self.dup, o.dup),
            (&mut self.open, o.open),
            (&mut self.infer_risk, o.infer_risk),
            (&mut self.unrequested_public, o.unrequested_public),
        ] {
            a.extend(b);
            a.sort();
            a.truncate(40);
        }
        for (item, kinds) in o.classes {
            let d = self.classes.entry(item).or_default();
            for (k, m) in kinds {
                let dm = d.entry(k).or_default();
                for (h, ci) in m {
                    let e = dm.entry(h).or_default();
                    e.count += ci.count;
                    if e.rep.is_none() || (ci.rep.is_some() && ci.rep < e.rep) {
                        e.rep = ci.rep;
                        e.text = ci.text;
                    }
                }
            }
        }
        for (k, v) in o.helper_vis {
            self.helper_vis.entry(k).or_default().extend(v);
        }
    }
}

/// method names whose resolution could depend on the derive's own trait impls
const INFER_RISK: [&str; 5] = ["into", "try_into", "parse", "to_string", "to_owned"];

fn requested_names(cfg: &Cfg) -> BTreeSet<String> {
    let mut s = BTreeSet::new();
    if cfg.as_str > 0 {
        s.insert("zz_as_str".to_string());
    }
    if cfg.from_str > 0 {
        s.insert("zz_from_str".to_string());
    }
    if cfg.iter > 0 {
        s.insert("zz_iter".to_string());
        s.insert("EIter".to_string());
    }
    if cfg.range {
        s.insert("zz_range".to_string());
    }
    for (i, f) in ONOFF.iter().enumerate() {
        if cfg.onoff >> i & 1 == 1 && NAMED.contains(f) {
            s.insert(format!("zz_{f}"));
            if *f == "names" {
                s.insert("ENames".to_string());
            }
        }
    }
    s
}

fn process(acc: &mut Acc, cfg: &Cfg, gapless: bool, base: &str) {
    acc.configs += 1;
    let full = format!("#[enum_tools({})] {}", cfg.attr(gapless), base);
    let input = match syn::parse_str::<syn::DeriveInput>(&full) {
        Ok(x) => x,
        Err(e) => {
            acc.unparsed_n += 1;
            acc.unparsed.push((cfg.clone(), format!("declaration does not parse: {e}")));
            return;
        }
    };
    let ts = match expand_input(input) {
        Expansion::Ok(ts) => ts,
        Expansion::Err(m) => {
            acc.rejected_n += 1;
            if acc.rejected.len() < 40 {
                acc.rejected.push((cfg.clone(), format!("ERR {}", m.join("; "))));
            }
            return;
        }
        Expansion::Panic(m) => {
            acc.rejected_n += 1;
            if acc.rejected.len() < 40 {
                acc.rejected.push((cfg.clone(), format!("PANIC {m}")));
            }
            return;
        }
    };
    acc.accepted += 1;
    let items = match split(ts) {
        Ok(i) => i,
        Err(e) => {
            acc.unparsed_n += 1;
            if acc.unparsed.len() < 40 {
                acc.unparsed.push((cfg.clone(), e));
            }
            return;
        }
    };
    // universe of generated names
    let mut uni: BTreeMap<String, usize> = BTreeMap::new();
    for (i, it) in items.iter().enumerate() {
        if it.kind == "impl" || it.kind == "inherent" || it.kind == "use" {
            continue;
        }
        if uni.insert(it.name.clone(), i).is_some() && acc.dup.len() < 40 {
            acc.dup.push((cfg.clone(), it.name.clone()));
        }
    }
    // references
    let mut refs: Vec<BTreeSet<usize>> = Vec::with_capacity(items.len());
    for (i, it) in items.iter().enumerate() {
        let mut ids = Vec::new();
        idents_of(&it.sig, &mut ids);
        idents_of(&it.body, &mut ids);
        let mut r = BTreeSet::new();
        for id in &ids {
            if let Some(&j) = uni.get(id) {
                if j != i {
                    r.insert(j);
                }
            }
            // a generated-looking name that is not defined in this expansion
            if (id.starts_with("__") || id.starts_with("zz_")) && !uni.contains_key(id) && acc.open.len() < 40 {
                acc.open.push((cfg.clone(), format!("{} refers to undefined {}", it.name, id)));
            }
        }
        // method calls whose resolution could be influenced by the derive's trait impls
        let txt = format!("{} {}", it.sig, it.body);
        for m in INFER_RISK {
            if txt.contains(&format!(". {m} (")) && acc.infer_risk.len() < 40 {
                acc.infer_risk.push((cfg.clone(), format!("{} calls .{}()", it.name, m)));
            }
        }
        refs.push(r);
    }
    let requested = requested_names(cfg);
    for (i, it) in items.iter().enumerate() {
        if it.kind == "inherent" {
            acc.class("(inherent impl header)", "own", &it.sig, cfg, true);
            continue;
        }
        if it.kind == "use" {
            // a module-level import puts a name into the USER's module: reported like an unrequested public item
            if acc.unrequested_public.len() < 40 {
                acc.unrequested_public.push((cfg.clone(), format!("module-level `{}`", it.sig)));
            }
            continue;
        }
        let own = format!("{} | {} | {} | {}", it.kind, it.vis, it.sig, it.body);
        // closure
        let mut seen: BTreeSet<usize> = BTreeSet::new();
        let mut stack = vec![i];
        while let Some(x) = stack.pop() {
            if seen.insert(x) {
                stack.extend(refs[x].iter().copied());
            }
        }
        let mut parts: Vec<String> = seen
            .iter()
            .filter(|&&x| x != i)
            .map(|&x| format!("{} {} {} {}", items[x].kind, items[x].vis, items[x].sig, items[x].body))
            .collect();
        parts.sort();
        let closure = format!("{own} || {}", parts.join(" || "));
        let mut lparts: Vec<String> = refs[i].iter().map(|&x| format!("{} {}", items[x].vis, items[x].sig)).collect();
        lparts.sort();
        let local = format!("{own} || {}", lparts.join(" || "));
        acc.class(&it.name, "own", &own, cfg, false);
        acc.class(&it.name, "closure", &closure, cfg, false);
        acc.class(&it.name, "local", &local, cfg, false);
        acc.class(&it.name, "sig", &format!("{} {}", it.kind, it.sig), cfg, true);
        if it.kind != "impl" {
            acc.class(&it.name, "vis", &it.vis, cfg, true);
            if !requested.contains(&it.name) {
                let qual = if it.owner.is_empty() || it.owner == "E" { it.name.clone() } else { format!("{}::{}", it.owner, it.name) };
                acc.helper_vis.entry(qual.clone()).or_default().insert(it.vis.clone());
                if !it.vis.is_empty() && acc.unrequested_public.len() < 40 {
                    acc.unrequested_public.push((cfg.clone(), format!("{} has visibility `{}`", qual, it.vis)));
                }
            }
        }
    }
}

pub fn enumerate(gapless: bool, low: u32, high: u32) -> Vec<Cfg> {
    let modes = iter_modes(gapless);
    let mut v = Vec::new();
    for onoff in 0u16..(1 << 12) {
        let pc = onoff.count_ones();
        if pc > low && pc < high {
            continue;
        }
        for a in 0..4u8 {
            for f in 0..4u8 {
                for t in 0..4u8 {
                    // iter off
                    v.push(Cfg { as_str: a, from_str: f, from_str_tr: t, iter: 0, range: false, onoff });
                    for (mi, m) in modes.iter().enumerate() {
                        v.push(Cfg { as_str: a, from_str: f, from_str_tr: t, iter: mi as u8 + 1, range: false, onoff });
                        if *m != "table_inline" {
                            v.push(Cfg { as_str: a, from_str: f, from_str_tr: t, iter: mi as u8 + 1, range: true, onoff });
                        }
                    }
                }
            }
        }
    }
    // simplest first: fewer enabled features first
    v.sort_by_key(|c| {
        let n = c.onoff.count_ones()
            + (c.as_str > 0) as u32
            + (c.from_str > 0) as u32
            + (c.from_str_tr > 0) as u32
            + (c.iter > 0) as u32
            + c.range as u32;
        (n, c.clone())
    });
    v
}

fn esc(s: &str) -> String {
    s.replace('\\', "\\\\").replace('\t', "\\t").replace('\n', "\\n")
}

pub fn main(args: &[String]) {
    let mut file = None;
    let mut low = 12u32;
    let mut high = 0u32;
    let mut threads = std::thread::available_parallelism().map(|n| n.get()).unwrap_or(4);
    let mut i = 0;
    while i < args.len() {
        match args[i].as_str() {
            "--low" => {
                i += 1;
                low = args[i].parse().unwrap();
            }
            "--high" => {
                i += 1;
                high = args[i].parse().unwrap();
            }
            "--threads" => {
                i += 1;
                threads = args[i].parse().unwrap();
            }
            f => file = Some(f.to_string()),
        }
        i += 1;
    }
    let file = file.expect("archetype file");
    let src = std::fs::read_to_string(&file).expect("read archetype");
    let _check: syn::DeriveInput = syn::parse_str(&src).expect("archetype parses");
    // gapless? decide from the real parser by expanding iter(mode = "range")
    let probe = format!("#[enum_tools(iter(mode = \"range\"))] {src}");
    let gapless = matches!(crate::expand_str(&probe), Expansion::Ok(_));
    let cfgs = enumerate(gapless, low, high);
    let total = cfgs.len();
    let cfgs = Arc::new(cfgs);
    let next = Arc::new(Mutex::new(0usize));
    let src = Arc::new(src);
    let mut handles = Vec::new();
    for _ in 0..threads {
        let cfgs = cfgs.clone();
        let next = next.clone();
        let src = src.clone();
        handles.push(std::thread::spawn(move || {
            let base: &str = &src;
            let mut acc = Acc::default();
            loop {
                let (s, e) = {
                    let mut n = next.lock().unwrap();
                    let s = *n;
                    let e = (s + 2048).min(cfgs.len());
                    *n = e;
                    (s, e)
                };
                if s >= e {
                    break;
                }
                for c in &cfgs[s..e] {
                    process(&mut acc, c, gapless, base);
                }
            }
            acc
        }));
    }
    let mut acc = Acc::default();
    for h in handles {
        match h.join() {
            Ok(a) => acc.merge(a),
            Err(_) => {
                println!("FATAL\tworker thread panicked");
                std::process::exit(2);
            }
        }
    }
    println!("SPACE\tgapless={}\ttotal={}\tconfigs={}\taccepted={}\trejected={}\tunparsed={}", gapless, total, acc.configs, acc.accepted, acc.rejected_n, acc.unparsed_n);
    for (c, m) in &acc.rejected {
        println!("REJECT\t{}\t{}", c.text(gapless), esc(m));
    }
    for (c, m) in &acc.unparsed {
        println!("UNPARSED\t{}\t{}", c.text(gapless), esc(m));
    }
    for (c, m) in &acc.dup {
        println!("DUP\t{}\t{}", c.text(gapless), esc(m));
    }
    for (c, m) in &acc.open {
        println!("OPEN\t{}\t{}", c.text(gapless), esc(m));
    }
    for (c, m) in &acc.infer_risk {
        println!("INFER\t{}\t{}", c.text(gapless), esc(m));
    }
    for (c, m) in &acc.unrequested_public {
        println!("LEAK\t{}\t{}", c.text(gapless), esc(m));
    }
    for (name, vs) in &acc.helper_vis {
        println!("HELPER\t{}\t{}", esc(name), vs.iter().map(|v| format!("`{v}`")).collect::<Vec<_>>().join(","));
    }
    for (item, kinds) in &acc.classes {
        for (k, m) in kinds {
            let mut hs: Vec<(&u64, &ClassInfo)> = m.iter().collect();
            hs.sort_by_key(|(h, ci)| (ci.rep.clone(), **h));
            for (h, ci) in hs {
                println!(
                    "CLASS\t{}\t{}\t{:016x}\t{}\t{}\t{}",
                    esc(item),
                    k,
                    h,
                    ci.count,
                    ci.rep.as_ref().map(|c| c.text(gapless)).unwrap_or_default(),
                    esc(&ci.text)
                );
            }
        }
    }
    println!("END");
}
