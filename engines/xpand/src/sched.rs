//! C17: exhaustive exploration of hash-map iteration orders through /repo's seam
//! (`--cfg enum_tools_verif`). Every `iter()`/`into_iter()` of a seam map with n >= 2 entries is a
//! choice point with n! alternatives; prefix-replay DFS over choice vectors (guidance idiom).

use crate::{expand_str, Expansion};
use std::cell::RefCell;
use std::collections::BTreeMap;
use std::io::{Read, Write};
use std::rc::Rc;

#[derive(Default)]
struct Run {
    prefix: Vec<u64>,
    /// (entries, chosen alternative) per choice point met
    points: Vec<(usize, u64)>,
    error: Option<String>,
}

/// number of alternatives explored at a choice point with n entries: all n! orders up to n = 7, beyond that a
/// fixed family of n*(n-1)/2 + n + 1 permutations (identity, every transposition, every rotation, reversal)
const FULL_UP_TO: usize = 7;

fn fact(n: usize) -> u64 {
    if n <= FULL_UP_TO {
        (1..=n as u64).product()
    } else {
        (n * (n - 1) / 2 + n + 1) as u64
    }
}

/// k-th permutation of 0..n in lexicographic order
fn kth_perm(n: usize, mut k: u64) -> Vec<usize> {
    if n > FULL_UP_TO {
        let mut p: Vec<usize> = (0..n).collect();
        if k == 0 {
            return p;
        }
        k -= 1;
        let pairs = (n * (n - 1) / 2) as u64;
        if k < pairs {
            // k-th transposition (i < j)
            let mut c = 0u64;
            for i in 0..n {
                for j in i + 1..n {
                    if c == k {
                        p.swap(i, j);
                        return p;
                    }
                    c += 1;
                }
            }
        }
        k -= pairs;
        if (k as usize) < n - 1 {
            p.rotate_left(k as usize + 1);
            return p;
        }
        p.reverse();
        return p;
    }
    let mut items: Vec<usize> = (0..n).collect();
    let mut out = Vec::with_capacity(n);
    for i in (0..n).rev() {
        let f = fact(i);
        let idx = (k / f) as usize;
        k %= f;
        out.push(items.remove(idx));
    }
    out
}

fn text_of(e: Expansion) -> String {
    match e {
        Expansion::Ok(ts) => format!("OK {}", ts),
        Expansion::Err(m) => {
            // diagnostics are a set: their relative order is not "generated code"
            let mut m = m;
            m.sort();
            format!("ERR {}", m.join(" | "))
        }
        Expansion::Panic(m) => format!("PANIC {m}"),
    }
}

fn run_once(decl: &str, prefix: &[u64]) -> (String, Vec<(usize, u64)>, Option<String>) {
    let st = Rc::new(RefCell::new(Run { prefix: prefix.to_vec(), ..Default::default() }));
    let st2 = st.clone();
    crate::verif_seam::set_scheduler(Some(Box::new(move |n: usize| {
        if n < 2 {
            return (0..n).collect();
        }
        let mut s = st2.borrow_mut();
        let i = s.points.len();
        let alt = if i < s.prefix.len() { s.prefix[i] } else { 0 };
        if alt >= fact(n) {
            s.error = Some(format!("choice {alt} out of range at point {i} with {n} entries (replay diverged)"));
            s.points.push((n, 0));
            return (0..n).collect();
        }
        s.points.push((n, alt));
        kth_perm(n, alt)
    })));
    let text = text_of(expand_str(decl));
    crate::verif_seam::set_scheduler(None);
    let s = st.borrow();
    (text, s.points.clone(), s.error.clone())
}

pub fn main(args: &[String]) {
    let cap: u64 = args.iter().position(|a| a == "--cap").map(|i| args[i + 1].parse().unwrap()).unwrap_or(200_000);
    let mut inp = String::new();
    std::io::stdin().read_to_string(&mut inp).unwrap();
    let so = std::io::stdout();
    let mut o = std::io::BufWriter::new(so.lock());
    for (di, decl) in inp.split("\n\u{1e}\n").enumerate() {
        if decl.trim().is_empty() {
            continue;
        }
        let mut outcomes: BTreeMap<String, Vec<u64>> = BTreeMap::new();
        let mut executions = 0u64;
        let mut max_alts = 0u64;
        let mut max_points = 0usize;
        let mut capped = false;
        let mut errors: Vec<String> = Vec::new();
        // replay determinism: the identity schedule twice
        let a = run_once(decl, &[]);
        let b = run_once(decl, &[]);
        if a.0 != b.0 || a.1 != b.1 {
            errors.push("the same schedule gave two different observations (uncontrolled nondeterminism)".into());
        }
        let mut stack: Vec<Vec<u64>> = vec![vec![]];
        let t0 = std::time::Instant::now();
        while let Some(prefix) = stack.pop() {
            if executions >= cap || (executions > 2000 && t0.elapsed().as_secs() >= 20) {
                capped = true;
                break;
            }
            let (text, points, err) = run_once(decl, &prefix);
            executions += 1;
            if let Some(e) = err {
                errors.push(e);
                break;
            }
            if points.len() < prefix.len() {
                errors.push("fewer choice points than the replayed prefix (replay diverged)".into());
                break;
            }
            max_points = max_points.max(points.len());
            outcomes.entry(text).or_insert_with(|| points.iter().map(|p| p.1).collect());
            for i in prefix.len()..points.len() {
                let n = points[i].0;
                if n > FULL_UP_TO {
                    capped = true; // not all n! orders of this map are enumerated
                }
                let alts = fact(n);
                max_alts = max_alts.max(alts);
                for alt in 1..alts {
                    let mut p: Vec<u64> = points[..i].iter().map(|x| x.1).collect();
                    p.push(alt);
                    stack.push(p);
                }
            }
        }
        writeln!(o, "DECL\t{di}\texecutions={executions}\tpoints={max_points}\tmax_alts={max_alts}\tdistinct={}\tcapped={capped}", outcomes.len()).unwrap();
        for e in &errors {
            writeln!(o, "ERROR\t{di}\t{e}").unwrap();
        }
        if outcomes.len() > 1 {
            for (t, sched) in outcomes.iter().take(2) {
                let t1: String = t.chars().take(3000).collect();
                writeln!(o, "OUTCOME\t{di}\t{:?}\t{}", sched, t1.replace('\n', " ")).unwrap();
            }
        }
    }
    writeln!(o, "END").unwrap();
}
