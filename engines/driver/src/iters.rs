//! Iterator exploration (C06, C07, C08): stateless enumeration of operation histories against a
//! `Vec` reference iterator stepped in lock-step.

use crate::{guard, out, Ctx, Obs};
use std::iter::FusedIterator;

#[derive(Clone, Copy, Debug, PartialEq, Eq, Hash)]
pub enum Consumer {
    Fold,
    Rfold,
    Last,
    Count,
    Collect,
    RevCollect,
    ForEach,
    RevNth1,
    Skip1RevCollect,
    EnumerateRevCollect,
    StepBy2Collect,
    Take2RevCollect,
    ZipSelfLen,
    Position,
    Rposition,
    TryFold2ThenCollect,
    TryRfold2ThenRevCollect,
    MaxByKey,
    FindThenLen,
}

pub const CONSUMERS: [Consumer; 19] = [
    Consumer::Fold,
    Consumer::Rfold,
    Consumer::Last,
    Consumer::Count,
    Consumer::Collect,
    Consumer::RevCollect,
    Consumer::ForEach,
    Consumer::RevNth1,
    Consumer::Skip1RevCollect,
    Consumer::EnumerateRevCollect,
    Consumer::StepBy2Collect,
    Consumer::Take2RevCollect,
    Consumer::ZipSelfLen,
    Consumer::Position,
    Consumer::Rposition,
    Consumer::TryFold2ThenCollect,
    Consumer::TryRfold2ThenRevCollect,
    Consumer::MaxByKey,
    Consumer::FindThenLen,
];

pub trait DynIter {
    fn next(&mut self) -> Option<Obs>;
    fn next_back(&mut self) -> Option<Obs>;
    fn nth(&mut self, n: usize) -> Option<Obs>;
    fn nth_back(&mut self, n: usize) -> Option<Obs>;
    fn len(&self) -> usize;
    fn size_hint(&self) -> (usize, Option<usize>);
    fn consume(self: Box<Self>, c: Consumer) -> Vec<Obs>;
}

/// The only generic (per-subject monomorphised) piece. The bounds are those the documentation
/// promises for the iterator structs.
pub struct W<I, F>(pub I, pub F);

impl<T, I, F> DynIter for W<I, F>
where
    I: Iterator<Item = T> + DoubleEndedIterator + ExactSizeIterator + FusedIterator,
    F: Fn(T) -> Obs + Copy,
{
    fn next(&mut self) -> Option<Obs> {
        self.0.next().map(self.1)
    }
    fn next_back(&mut self) -> Option<Obs> {
        self.0.next_back().map(self.1)
    }
    fn nth(&mut self, n: usize) -> Option<Obs> {
        self.0.nth(n).map(self.1)
    }
    fn nth_back(&mut self, n: usize) -> Option<Obs> {
        self.0.nth_back(n).map(self.1)
    }
    fn len(&self) -> usize {
        ExactSizeIterator::len(&self.0)
    }
    fn size_hint(&self) -> (usize, Option<usize>) {
        self.0.size_hint()
    }
    fn consume(self: Box<Self>, c: Consumer) -> Vec<Obs> {
        let W(it, f) = *self;
        match c {
            Consumer::Fold => it.fold(Vec::new(), |mut v, x| {
                v.push(f(x));
                v
            }),
            Consumer::Rfold => it.rfold(Vec::new(), |mut v, x| {
                v.push(f(x));
                v
            }),
            Consumer::Last => it.last().map(f).into_iter().collect(),
            Consumer::Count => vec![Obs::D(it.count() as i128)],
            Consumer::Collect => it.map(f).collect(),
            Consumer::RevCollect => it.rev().map(f).collect(),
            Consumer::ForEach => {
                let mut v = Vec::new();
                it.for_each(|x| v.push(f(x)));
                v
            }
            Consumer::RevNth1 => it.rev().nth(1).map(f).into_iter().collect(),
            Consumer::Skip1RevCollect => it.skip(1).rev().map(f).collect(),
            Consumer::EnumerateRevCollect => {
                let mut v = Vec::new();
                for (i, x) in it.enumerate().rev() {
                    v.push(Obs::D(i as i128));
                    v.push(f(x));
                }
                v
            }
            Consumer::StepBy2Collect => it.step_by(2).map(f).collect(),
            Consumer::Take2RevCollect => it.take(2).rev().map(f).collect(),
            Consumer::Position => {
                // position of the last-but-one element (by observation), counted from the front
                let mut it = it;
                let mut n = 0usize;
                let p = it.position(|_| {
                    n += 1;
                    n == 3
                });
                let mut v = vec![Obs::D(p.map_or(-1, |x| x as i128))];
                v.extend(it.map(f));
                v
            }
            Consumer::Rposition => {
                // rposition uses len() and next_back()
                let mut it = it;
                let mut n = 0usize;
                let p = it.rposition(|_| {
                    n += 1;
                    n == 2
                });
                let mut v = vec![Obs::D(p.map_or(-1, |x| x as i128))];
                v.extend(it.map(f));
                v
            }
            Consumer::TryFold2ThenCollect => {
                let mut it = it;
                let mut v = Vec::new();
                let _ = it.try_fold(0usize, |n, x| {
                    v.push(f(x));
                    if n + 1 == 2 {
                        Err(())
                    } else {
                        Ok(n + 1)
                    }
                });
                v.push(Obs::D(-7));
                v.extend(it.map(f));
                v
            }
            Consumer::TryRfold2ThenRevCollect => {
                let mut it = it;
                let mut v = Vec::new();
                let _ = it.try_rfold(0usize, |n, x| {
                    v.push(f(x));
                    if n + 1 == 2 {
                        Err(())
                    } else {
                        Ok(n + 1)
                    }
                });
                v.push(Obs::D(-7));
                v.extend(it.rev().map(f));
                v
            }
            Consumer::MaxByKey => {
                // last maximal element by position parity: exercises reduce/fold
                let mut i = 0usize;
                it.max_by_key(|_| {
                    i += 1;
                    i % 2
                })
                .map(f)
                .into_iter()
                .collect()
            }
            Consumer::FindThenLen => {
                let mut it = it;
                let mut n = 0usize;
                let x = it.find(|_| {
                    n += 1;
                    n == 2
                });
                let mut v: Vec<Obs> = x.map(f).into_iter().collect();
                v.push(Obs::D(ExactSizeIterator::len(&it) as i128));
                v
            }
            Consumer::ZipSelfLen => {
                let l = ExactSizeIterator::len(&it);
                let z = it.zip(0..l);
                let zl = ExactSizeIterator::len(&z);
                let mut v = vec![Obs::D(zl as i128)];
                for (x, i) in z.rev() {
                    v.push(Obs::D(i as i128));
                    v.push(f(x));
                }
                v
            }
        }
    }
}

#[derive(Clone, Copy, Debug, PartialEq, Eq, Hash)]
pub enum Op {
    Next,
    NextBack,
    Nth(usize),
    NthBack(usize),
}

impl Op {
    pub fn show(&self) -> String {
        match self {
            Op::Next => "next()".into(),
            Op::NextBack => "next_back()".into(),
            Op::Nth(k) if *k == usize::MAX => "nth(usize::MAX)".into(),
            Op::NthBack(k) if *k == usize::MAX => "nth_back(usize::MAX)".into(),
            Op::Nth(k) => format!("nth({k})"),
            Op::NthBack(k) => format!("nth_back({k})"),
        }
    }
}

pub const SIGMA1: [Op; 12] = [
    Op::Next,
    Op::NextBack,
    Op::Nth(0),
    Op::Nth(1),
    Op::Nth(2),
    Op::Nth(3),
    Op::Nth(usize::MAX),
    Op::NthBack(0),
    Op::NthBack(1),
    Op::NthBack(2),
    Op::NthBack(3),
    Op::NthBack(usize::MAX),
];
pub const SIGMA2: [Op; 4] = [Op::Next, Op::NextBack, Op::Nth(1), Op::NthBack(1)];

/// reference iterator: a window [lo, hi) of the expected list
#[derive(Clone, Copy)]
struct Model {
    lo: usize,
    hi: usize,
}

impl Model {
    fn step(&mut self, op: Op) -> Option<usize> {
        match op {
            Op::Next => self.step(Op::Nth(0)),
            Op::NextBack => self.step(Op::NthBack(0)),
            Op::Nth(k) => {
                if k >= self.hi - self.lo {
                    self.lo = self.hi;
                    None
                } else {
                    self.lo += k;
                    let r = self.lo;
                    self.lo += 1;
                    Some(r)
                }
            }
            Op::NthBack(k) => {
                if k >= self.hi - self.lo {
                    self.hi = self.lo;
                    None
                } else {
                    self.hi -= k;
                    self.hi -= 1;
                    Some(self.hi)
                }
            }
        }
    }
    fn canon(&self) -> (usize, usize) {
        if self.lo >= self.hi {
            (0, 0)
        } else {
            (self.lo, self.hi)
        }
    }
}

fn model_consume(exp: &[Obs], c: Consumer) -> Vec<Obs> {
    match c {
        Consumer::Fold | Consumer::Collect | Consumer::ForEach => exp.to_vec(),
        Consumer::Rfold | Consumer::RevCollect => exp.iter().rev().cloned().collect(),
        Consumer::Last => exp.last().cloned().into_iter().collect(),
        Consumer::Count => vec![Obs::D(exp.len() as i128)],
        Consumer::RevNth1 => exp.iter().rev().nth(1).cloned().into_iter().collect(),
        Consumer::Skip1RevCollect => exp.iter().skip(1).rev().cloned().collect(),
        Consumer::EnumerateRevCollect => {
            let mut v = Vec::new();
            for (i, x) in exp.iter().enumerate().rev() {
                v.push(Obs::D(i as i128));
                v.push(x.clone());
            }
            v
        }
        Consumer::StepBy2Collect => exp.iter().step_by(2).cloned().collect(),
        Consumer::Take2RevCollect => exp.iter().take(2).rev().cloned().collect(),
        Consumer::Position => {
            if exp.len() >= 3 {
                let mut v = vec![Obs::D(2)];
                v.extend(exp[3..].iter().cloned());
                v
            } else {
                vec![Obs::D(-1)]
            }
        }
        Consumer::Rposition => {
            if exp.len() >= 2 {
                let mut v = vec![Obs::D(exp.len() as i128 - 2)];
                v.extend(exp[..exp.len() - 2].iter().cloned());
                v
            } else {
                vec![Obs::D(-1)]
            }
        }
        Consumer::TryFold2ThenCollect => {
            let k = exp.len().min(2);
            let mut v: Vec<Obs> = exp[..k].to_vec();
            v.push(Obs::D(-7));
            v.extend(exp[k..].iter().cloned());
            v
        }
        Consumer::TryRfold2ThenRevCollect => {
            let k = exp.len().min(2);
            let mut v: Vec<Obs> = exp.iter().rev().take(k).cloned().collect();
            v.push(Obs::D(-7));
            v.extend(exp[..exp.len() - k].iter().rev().cloned());
            v
        }
        Consumer::MaxByKey => {
            // keys 1,0,1,0,…: max_by_key returns the LAST element with the maximal key (key 1 = odd positions counted from 1)
            let mut best: Option<&Obs> = None;
            for (i, x) in exp.iter().enumerate() {
                if (i + 1) % 2 == 1 {
                    best = Some(x);
                }
            }
            best.cloned().into_iter().collect()
        }
        Consumer::FindThenLen => {
            if exp.len() >= 2 {
                vec![exp[1].clone(), Obs::D(exp.len() as i128 - 2)]
            } else {
                vec![Obs::D(0)]
            }
        }
        Consumer::ZipSelfLen => {
            let mut v = vec![Obs::D(exp.len() as i128)];
            for (i, x) in exp.iter().enumerate().rev() {
                v.push(Obs::D(i as i128));
                v.push(x.clone());
            }
            v
        }
    }
}

fn show_obs(o: &Option<Obs>) -> String {
    match o {
        Some(x) => format!("Some({})", x.show()),
        None => "None".into(),
    }
}

fn show_vec(v: &[Obs]) -> String {
    let mut s = String::from("[");
    for (i, x) in v.iter().enumerate() {
        if i > 0 {
            s.push_str(", ");
        }
        if i >= 24 {
            s.push_str(&format!("… ({} items)", v.len()));
            break;
        }
        s.push_str(&x.show());
    }
    s.push(']');
    s
}

fn show_hist(h: &[Op]) -> String {
    h.iter().map(|o| o.show()).collect::<Vec<_>>().join("; ")
}

/// Explore all histories over `sigma` of length 1..=depth (shortest first) for the iterator
/// produced by `mk`, whose expected content is `exp`. Returns false when a violation stopped it.
fn explore(
    c: &mut Ctx,
    kind: &'static str,
    what: &str,
    mk: &dyn Fn() -> Box<dyn DynIter>,
    exp: &[Obs],
    sigma: &[Op],
    depth: u32,
    consumers: bool,
) -> bool {
    let n = exp.len();
    // depth 0 is the fresh iterator; then all histories of length 1, 2, … (shortest first)
    for d in 0..=depth as usize {
        let mut idx = vec![0usize; d];
        'odo: loop {
            let hist: Vec<Op> = idx.iter().map(|&i| sigma[i]).collect();
            if !check_node(c, kind, what, mk, exp, &hist, consumers, n) {
                return false;
            }
            if (d as u32) > c.st.max_depth {
                c.st.max_depth = d as u32;
            }
            let mut p = d;
            loop {
                if p == 0 {
                    break 'odo;
                }
                p -= 1;
                idx[p] += 1;
                if idx[p] < sigma.len() {
                    break;
                }
                idx[p] = 0;
            }
        }
    }
    true
}

fn check_node(
    c: &mut Ctx,
    kind: &'static str,
    what: &str,
    mk: &dyn Fn() -> Box<dyn DynIter>,
    exp: &[Obs],
    hist: &[Op],
    consumers: bool,
    n: usize,
) -> bool {
    // replay on a fresh iterator, lock-step with the model
    let replay = |c: &mut Ctx, count: bool| -> Result<(Box<dyn DynIter>, Model), ()> {
        let mut it = match guard(|| mk()) {
            Ok(it) => it,
            Err(p) => {
                c.violation(kind, &format!("{what}"), "an iterator", &format!("PANIC: {p}"));
                return Err(());
            }
        };
        let mut m = Model { lo: 0, hi: n };
        for (i, op) in hist.iter().enumerate() {
            let want = m.step(*op).map(|x| exp[x].clone());
            let got = guard(|| match *op {
                Op::Next => it.next(),
                Op::NextBack => it.next_back(),
                Op::Nth(k) => it.nth(k),
                Op::NthBack(k) => it.nth_back(k),
            });
            if count {
                c.st.transitions += 1;
                c.st.h(kind, &(i, got.clone().ok()));
            }
            match got {
                Ok(g) if g == want => {}
                Ok(g) => {
                    c.violation(
                        kind,
                        &format!("{what}: {}", show_hist(&hist[..=i])),
                        &show_obs(&want),
                        &show_obs(&g),
                    );
                    return Err(());
                }
                Err(p) => {
                    c.violation(kind, &format!("{what}: {}", show_hist(&hist[..=i])), &show_obs(&want), &format!("PANIC: {p}"));
                    return Err(());
                }
            }
        }
        Ok((it, m))
    };
    let (it, m) = match replay(c, true) {
        Ok(x) => x,
        Err(()) => return false,
    };
    c.st.states += 1;
    c.st.model_states.insert(m.canon());
    let rem = m.hi - m.lo;
    if rem < n {
        c.st.nontrivial += 1;
    }
    // observations at every node
    let l = guard(|| it.len());
    let sh = guard(|| it.size_hint());
    c.st.transitions += 2;
    c.st.h(kind, &(l.clone().ok(), sh.clone().ok()));
    if l != Ok(rem) {
        c.violation(kind, &format!("{what}: {}; len()", show_hist(hist)), &format!("{rem}"), &format!("{l:?}"));
        return false;
    }
    if sh != Ok((rem, Some(rem))) {
        c.violation(kind, &format!("{what}: {}; size_hint()", show_hist(hist)), &format!("({rem}, Some({rem}))"), &format!("{sh:?}"));
        return false;
    }
    drop(it);
    if consumers {
        for cons in CONSUMERS {
            let (it, m) = match replay(c, false) {
                Ok(x) => x,
                Err(()) => {
                    // the same history just succeeded: the subject is not deterministic
                    c.machinery.push(format!("{}: replay of {} diverged", c.s.id, show_hist(hist)));
                    return false;
                }
            };
            let want = model_consume(&exp[m.lo..m.hi], cons);
            let got = guard(move || it.consume(cons));
            c.st.transitions += 1;
            c.st.h(kind, &(cons, got.clone().ok()));
            match got {
                Ok(g) if g == want => {}
                Ok(g) => {
                    c.violation(kind, &format!("{what}: {}; {cons:?}", show_hist(hist)), &show_vec(&want), &show_vec(&g));
                    return false;
                }
                Err(p) => {
                    c.violation(kind, &format!("{what}: {}; {cons:?}", show_hist(hist)), &show_vec(&want), &format!("PANIC: {p}"));
                    return false;
                }
            }
        }
    }
    true
}

fn explore_both(
    c: &mut Ctx,
    kind: &'static str,
    what: &str,
    mk: &dyn Fn() -> Box<dyn DynIter>,
    exp: &[Obs],
    x1: u32,
    x2: u32,
    consumers: bool,
) -> bool {
    if !explore(c, kind, what, mk, exp, &SIGMA1, x1, consumers) {
        return false;
    }
    if x2 > 0 {
        if !explore(c, kind, what, mk, exp, &SIGMA2, x2, consumers) {
            return false;
        }
    }
    true
}

pub const MS_NONE: Obs = Obs::S("\u{0}none");

/// What the method-syntax script of the glue (lib/e3.py `MS_SCRIPT`) must observe on a list `exp`.
pub fn ms_expected(exp: &[Obs]) -> Vec<Obs> {
    let mut m = Model { lo: 0, hi: exp.len() };
    let mut v = Vec::new();
    let o = |x: Option<usize>| x.map_or(MS_NONE, |i| exp[i].clone());
    let l = |m: &Model| Obs::D((m.hi - m.lo) as i128);
    v.push(l(&m));
    let x = m.step(Op::Next);
    v.push(o(x));
    v.push(l(&m));
    let x = m.step(Op::NextBack);
    v.push(o(x));
    v.push(l(&m));
    v.push(l(&m));
    v.push(l(&m));
    let x = m.step(Op::Nth(1));
    v.push(o(x));
    v.push(l(&m));
    let x = m.step(Op::NthBack(0));
    v.push(o(x));
    v.push(l(&m));
    v.push(l(&m)); // count() of the rest
    // fresh iterators
    v.push(exp.last().cloned().unwrap_or(MS_NONE)); // last()
    v.push(exp.last().cloned().unwrap_or(MS_NONE)); // rev().next()
    v.push(Obs::D(exp.len() as i128)); // fold counting
    v.push(exp.get(2).cloned().unwrap_or(MS_NONE)); // skip(2).next()
    v.push(Obs::D(exp.len() as i128)); // len() of a fresh iterator
    v
}

fn phase_ms(c: &mut Ctx, kind: &'static str, f: fn() -> Vec<Obs>, exp: &[Obs]) {
    let want = ms_expected(exp);
    let got = guard(f);
    c.st.transitions += want.len() as u64;
    match got {
        Ok(g) if g == want => {}
        Ok(g) => {
            let k = (0..want.len().min(g.len())).find(|&i| want[i] != g[i]).unwrap_or(want.len().min(g.len()));
            c.violation(kind, &format!("{kind}: method-call-syntax script, observation #{k} (len, next, len, next_back, len, size_hint.0, size_hint.1, nth(1), len, nth_back(0), len, count, last, rev.next, fold-count, skip(2).next, fresh len)"),
                        &show_vec(&want), &show_vec(&g));
        }
        Err(p) => {
            c.violation(kind, &format!("{kind}: method-call-syntax script"), &show_vec(&want), &format!("PANIC: {p}"));
        }
    }
}

pub fn phase_iter(c: &mut Ctx) {
    let s = c.s;
    let Some(mk) = s.iter else { return };
    out(&format!("P {} iter", s.id));
    let exp: Vec<Obs> = c.model.iter().map(|p| Obs::D(p.0)).collect();
    let x2 = (exp.len() as u32 + s.x2_extra).min(s.x2_cap);
    explore_both(c, "iter", "iter()", &|| mk(), &exp, s.x1_depth, x2, s.consumers);
    if let Some(f) = s.iter_ms {
        phase_ms(c, "iter", f, &exp);
    }
    c.st.oc("iter:explored");
}

pub fn phase_names(c: &mut Ctx) {
    let s = c.s;
    let Some(mk) = s.names else { return };
    out(&format!("P {} names", s.id));
    let exp: Vec<Obs> = c.model.iter().map(|p| Obs::S(p.1)).collect();
    let x2 = (exp.len() as u32 + s.x2_extra).min(s.x2_cap);
    explore_both(c, "names", "names()", &|| mk(), &exp, s.x1_depth, x2, s.consumers);
    if let Some(f) = s.names_ms {
        phase_ms(c, "names", f, &exp);
    }
    c.st.oc("names:explored");
    if let Some(z) = s.zip {
        let want: Vec<(i128, &'static str)> = c.model.iter().map(|p| (p.0, p.1)).collect();
        let got = guard(z);
        c.st.transitions += 1;
        c.st.h("zip(iter,names)", &got.clone().ok());
        if got.as_ref() != Ok(&want) {
            c.violation("names", "iter().zip(names()).collect()", &format!("{:?}", &want[..want.len().min(12)]), &format!("{:?}", got.map(|v| v.into_iter().take(12).collect::<Vec<_>>())));
        }
        // as_str alignment
        if let Some(as_str) = s.as_str {
            for si in 0..c.model.len() {
                let di = c.model[si].2;
                let r = guard(|| as_str(di));
                if r != Ok(c.model[si].1) {
                    c.violation("names", &format!("as_str of zip element {si}"), &format!("{:?}", c.model[si].1), &format!("{r:?}"));
                    break;
                }
            }
        }
    }
}

pub fn phase_range(c: &mut Ctx) {
    let s = c.s;
    let Some(rf) = s.range else { return };
    out(&format!("P {} range", s.id));
    let n = c.model.len();
    let mut pairs: Vec<(usize, usize)> = Vec::new();
    if s.range_pair_step == 0 {
        for a in 0..n {
            for b in 0..n {
                pairs.push((a, b));
            }
        }
    } else {
        let k = s.range_pair_step as usize;
        let mut cnt = 0usize;
        for a in 0..n {
            for b in 0..n {
                let special = a == b && (a % 50 == 0 || a + 1 == n)
                    || (a == 0 && b == n - 1)
                    || (a == n - 1 && b == 0)
                    || (a == 0 && b == 0)
                    || (a + 1 == b && a % 97 == 0)
                    || (b + 1 == a && a % 89 == 0)
                    || (b + 2 == a && a % 83 == 0);
                if special || cnt % k == 0 {
                    pairs.push((a, b));
                }
                cnt += 1;
            }
        }
    }
    for (a, b) in pairs {
        if c.viol_per_kind.get("range").copied().unwrap_or(0) >= c.max_viol_per_kind {
            break;
        }
        let (da, db) = (c.model[a].0, c.model[b].0);
        let exp: Vec<Obs> = if a <= b { c.model[a..=b].iter().map(|p| Obs::D(p.0)).collect() } else { Vec::new() };
        let (ia, ib) = (c.model[a].2, c.model[b].2);
        let what = format!("range(E::{}, E::{}) [disc {da}..={db}]", s.decl[ia].1, s.decl[ib].1);
        if a > b {
            c.st.oc("range:reversed-empty");
        } else if a == b {
            c.st.oc("range:single");
        } else {
            c.st.oc("range:nonempty");
        }
        c.st.h("range", &(da, db));
        let x2 = (exp.len() as u32 + s.range_x2_extra).min(s.x2_cap);
        explore_both(c, "range", &what, &|| rf(ia, ib), &exp, s.range_x1_depth, x2, s.consumers);
    }
}
