//! Iterator exploration (C06, C07, C08): stateless enumeration of operation histories against a
//! `Vec` reference iterator stepped in lock-step.

use crate::{guard, out, Ctx, Obs};
use std::iter::FusedIterator;

#[derive(Clone, Copy, Debug, PartialEq, Eq, Hash)]
pub enum Consumer {
    Fold,
    Rfold,
    Last,
    Count,
    Collect,
    RevCollect,
    ForEach,
    RevNth1,
    Skip1RevCollect,
    EnumerateRevCollect,
    StepBy2Collect,
    Take2RevCollect,
    ZipSelfLen,
    Position,
    Rposition,
    TryFold2ThenCollect,
    TryRfold2ThenRevCollect,
    MaxByKey,
    FindThenLen,
    // second group (every remaining stable provided method a generated iterator could override); the reference
    // for these is the same consumer run on `Vec`'s own iterator over the expected list
    Reduce,
    AllThenRest,
    AnyThenRest,
    FindMapThenRest,
    RfindThenRest,
    MaxBy,
    MinBy,
    MinByKey,
    Partition,
    IsSortedByKey,
    ByRefTake1ThenLast,
    ChainOnceNthBack,
    FuseDrainThenPoll,
    PeekableCollect,
    SkipWhileCollect,
    CountAfterNextBack,
    LastAfterNthBack,
    RevFoldAfterNext,
    TryForEachThenLen,
    RevRfind,
}

pub const CONSUMERS: [Consumer; 39] = [
    Consumer::Fold,
    Consumer::Rfold,
    Consumer::Last,
    Consumer::Count,
    Consumer::Collect,
    Consumer::RevCollect,
    Consumer::ForEach,
    Consumer::RevNth1,
    Consumer::Skip1RevCollect,
    Consumer::EnumerateRevCollect,
    Consumer::StepBy2Collect,
    Consumer::Take2RevCollect,
    Consumer::ZipSelfLen,
    Consumer::Position,
    Consumer::Rposition,
    Consumer::TryFold2ThenCollect,
    Consumer::TryRfold2ThenRevCollect,
    Consumer::MaxByKey,
    Consumer::FindThenLen,
    Consumer::Reduce,
    Consumer::AllThenRest,
    Consumer::AnyThenRest,
    Consumer::FindMapThenRest,
    Consumer::RfindThenRest,
    Consumer::MaxBy,
    Consumer::MinBy,
    Consumer::MinByKey,
    Consumer::Partition,
    Consumer::IsSortedByKey,
    Consumer::ByRefTake1ThenLast,
    Consumer::ChainOnceNthBack,
    Consumer::FuseDrainThenPoll,
    Consumer::PeekableCollect,
    Consumer::SkipWhileCollect,
    Consumer::CountAfterNextBack,
    Consumer::LastAfterNthBack,
    Consumer::RevFoldAfterNext,
    Consumer::TryForEachThenLen,
    Consumer::RevRfind,
];

/// Consumers that need `Item: Ord` (only `names()` yields such items: the subjects derive nothing but Clone, Copy).
#[derive(Clone, Copy, Debug, PartialEq, Eq, Hash)]
pub enum OrdConsumer {
    Max,
    Min,
    IsSorted,
    CmpFixed,
    EqFixed,
    LeFixed,
    RevMax,
    MaxAfterNext,
}

pub const ORD_CONSUMERS: [OrdConsumer; 8] = [
    OrdConsumer::Max,
    OrdConsumer::Min,
    OrdConsumer::IsSorted,
    OrdConsumer::CmpFixed,
    OrdConsumer::EqFixed,
    OrdConsumer::LeFixed,
    OrdConsumer::RevMax,
    OrdConsumer::MaxAfterNext,
];

const FIXED: [&str; 2] = ["N0", "V1"];

pub fn consume_ord<I>(it: I, c: OrdConsumer) -> Vec<Obs>
where
    I: Iterator<Item = &'static str> + DoubleEndedIterator + ExactSizeIterator + FusedIterator,
{
    let o = |x: Option<&'static str>| x.map(Obs::S).into_iter().collect::<Vec<Obs>>();
    match c {
        OrdConsumer::Max => o(it.max()),
        OrdConsumer::Min => o(it.min()),
        OrdConsumer::IsSorted => vec![Obs::D(it.is_sorted() as i128)],
        OrdConsumer::CmpFixed => vec![Obs::D(it.cmp(FIXED.iter().copied()) as i128)],
        OrdConsumer::EqFixed => vec![Obs::D(it.eq(FIXED.iter().copied()) as i128)],
        OrdConsumer::LeFixed => vec![Obs::D(it.le(FIXED.iter().copied()) as i128)],
        OrdConsumer::RevMax => o(it.rev().max()),
        OrdConsumer::MaxAfterNext => {
            let mut it = it;
            let a = it.next();
            let mut v = o(a);
            v.push(Obs::D(-7));
            v.extend(o(it.max()));
            v
        }
    }
}


pub trait DynIter {
    fn next(&mut self) -> Option<Obs>;
    fn next_back(&mut self) -> Option<Obs>;
    fn nth(&mut self, n: usize) -> Option<Obs>;
    fn nth_back(&mut self, n: usize) -> Option<Obs>;
    fn len(&self) -> usize;
    fn size_hint(&self) -> (usize, Option<usize>);
    fn consume(self: Box<Self>, c: Consumer) -> Vec<Obs>;
    /// false: a light wrapper (only LIGHT_CONSUMERS are compiled in)
    fn full(&self) -> bool {
        true
    }
    /// `None`: the item type is not `Ord` (nothing to observe)
    fn consume_ord(self: Box<Self>, _c: OrdConsumer) -> Option<Vec<Obs>> {
        None
    }
}

/// The only generic (per-subject monomorphised) piece. The bounds are those the documentation
/// promises for the iterator structs.
pub struct W<I, F>(pub I, pub F);

impl<T, I, F> DynIter for W<I, F>
where
    I: Iterator<Item = T> + DoubleEndedIterator + ExactSizeIterator + FusedIterator,
    F: Fn(T) -> Obs + Copy,
{
    fn next(&mut self) -> Option<Obs> {
        self.0.next().map(self.1)
    }
    fn next_back(&mut self) -> Option<Obs> {
        self.0.next_back().map(self.1)
    }
    fn nth(&mut self, n: usize) -> Option<Obs> {
        self.0.nth(n).map(self.1)
    }
    fn nth_back(&mut self, n: usize) -> Option<Obs> {
        self.0.nth_back(n).map(self.1)
    }
    fn len(&self) -> usize {
        ExactSizeIterator::len(&self.0)
    }
    fn size_hint(&self) -> (usize, Option<usize>) {
        self.0.size_hint()
    }
    fn consume(self: Box<Self>, c: Consumer) -> Vec<Obs> {
        let W(it, f) = *self;
        consume_generic(it, f, c)
    }
}

/// Light wrapper for subjects whose bounds switch the consumers off: nothing of `consume_generic` is monomorphised for them
/// (half of a subject's compile time otherwise).
pub struct WL<I, F>(pub I, pub F);

impl<T, I, F> DynIter for WL<I, F>
where
    I: Iterator<Item = T> + DoubleEndedIterator + ExactSizeIterator + FusedIterator,
    F: Fn(T) -> Obs + Copy,
{
    fn next(&mut self) -> Option<Obs> {
        self.0.next().map(self.1)
    }
    fn next_back(&mut self) -> Option<Obs> {
        self.0.next_back().map(self.1)
    }
    fn nth(&mut self, n: usize) -> Option<Obs> {
        self.0.nth(n).map(self.1)
    }
    fn nth_back(&mut self, n: usize) -> Option<Obs> {
        self.0.nth_back(n).map(self.1)
    }
    fn len(&self) -> usize {
        ExactSizeIterator::len(&self.0)
    }
    fn size_hint(&self) -> (usize, Option<usize>) {
        self.0.size_hint()
    }
    fn full(&self) -> bool {
        false
    }
    fn consume(self: Box<Self>, c: Consumer) -> Vec<Obs> {
        // only the five basic consumers (cheap to compile); the explorer never asks a light subject for more
        let WL(it, f) = *self;
        match c {
            Consumer::Fold => it.fold(Vec::new(), |mut v, x| {
                v.push(f(x));
                v
            }),
            Consumer::Rfold => it.rfold(Vec::new(), |mut v, x| {
                v.push(f(x));
                v
            }),
            Consumer::Last => it.last().map(f).into_iter().collect(),
            Consumer::Count => vec![Obs::D(it.count() as i128)],
            Consumer::RevCollect => it.rev().map(f).collect(),
            _ => it.map(f).collect(),
        }
    }
}

pub const LIGHT_CONSUMERS: [Consumer; 6] = [Consumer::Fold, Consumer::Rfold, Consumer::Last, Consumer::Count, Consumer::RevCollect, Consumer::Collect];

/// `names()`: items are `&'static str`, so the `Ord`-based consumers apply as well.
pub struct WS<I>(pub I);

impl<I> DynIter for WS<I>
where
    I: Iterator<Item = &'static str> + DoubleEndedIterator + ExactSizeIterator + FusedIterator,
{
    fn next(&mut self) -> Option<Obs> {
        self.0.next().map(Obs::S)
    }
    fn next_back(&mut self) -> Option<Obs> {
        self.0.next_back().map(Obs::S)
    }
    fn nth(&mut self, n: usize) -> Option<Obs> {
        self.0.nth(n).map(Obs::S)
    }
    fn nth_back(&mut self, n: usize) -> Option<Obs> {
        self.0.nth_back(n).map(Obs::S)
    }
    fn len(&self) -> usize {
        ExactSizeIterator::len(&self.0)
    }
    fn size_hint(&self) -> (usize, Option<usize>) {
        self.0.size_hint()
    }
    fn consume(self: Box<Self>, c: Consumer) -> Vec<Obs> {
        consume_generic(self.0, Obs::S as fn(&'static str) -> Obs, c)
    }
    fn consume_ord(self: Box<Self>, c: OrdConsumer) -> Option<Vec<Obs>> {
        Some(consume_ord(self.0, c))
    }
}

/// Every consumer, written once: run on the generated iterator (through `W` / `WS`) and, for the
/// reference, on `Vec`'s own iterator over the expected list.
pub fn consume_generic<T, I, F>(it: I, f: F, c: Consumer) -> Vec<Obs>
where
    I: Iterator<Item = T> + DoubleEndedIterator + ExactSizeIterator + FusedIterator,
    F: Fn(T) -> Obs + Copy,
{
    match c {
            Consumer::Fold => it.fold(Vec::new(), |mut v, x| {
                v.push(f(x));
                v
            }),
            Consumer::Rfold => it.rfold(Vec::new(), |mut v, x| {
                v.push(f(x));
                v
            }),
            Consumer::Last => it.last().map(f).into_iter().collect(),
            Consumer::Count => vec![Obs::D(it.count() as i128)],
            Consumer::Collect => it.map(f).collect(),
            Consumer::RevCollect => it.rev().map(f).collect(),
            Consumer::ForEach => {
                let mut v = Vec::new();
                it.for_each(|x| v.push(f(x)));
                v
            }
            Consumer::RevNth1 => it.rev().nth(1).map(f).into_iter().collect(),
            Consumer::Skip1RevCollect => it.skip(1).rev().map(f).collect(),
            Consumer::EnumerateRevCollect => {
                let mut v = Vec::new();
                for (i, x) in it.enumerate().rev() {
                    v.push(Obs::D(i as i128));
                    v.push(f(x));
                }
                v
            }
            Consumer::StepBy2Collect => it.step_by(2).map(f).collect(),
            Consumer::Take2RevCollect => it.take(2).rev().map(f).collect(),
            Consumer::Position => {
                // position of the last-but-one element (by observation), counted from the front
                let mut it = it;
                let mut n = 0usize;
                let p = it.position(|_| {
                    n += 1;
                    n == 3
                });
                let mut v = vec![Obs::D(p.map_or(-1, |x| x as i128))];
                v.extend(it.map(f));
                v
            }
            Consumer::Rposition => {
                // rposition uses len() and next_back()
                let mut it = it;
                let mut n = 0usize;
                let p = it.rposition(|_| {
                    n += 1;
                    n == 2
                });
                let mut v = vec![Obs::D(p.map_or(-1, |x| x as i128))];
                v.extend(it.map(f));
                v
            }
            Consumer::TryFold2ThenCollect => {
                let mut it = it;
                let mut v = Vec::new();
                let _ = it.try_fold(0usize, |n, x| {
                    v.push(f(x));
                    if n + 1 == 2 {
                        Err(())
                    } else {
                        Ok(n + 1)
                    }
                });
                v.push(Obs::D(-7));
                v.extend(it.map(f));
                v
            }
            Consumer::TryRfold2ThenRevCollect => {
                let mut it = it;
                let mut v = Vec::new();
                let _ = it.try_rfold(0usize, |n, x| {
                    v.push(f(x));
                    if n + 1 == 2 {
                        Err(())
                    } else {
                        Ok(n + 1)
                    }
                });
                v.push(Obs::D(-7));
                v.extend(it.rev().map(f));
                v
            }
            Consumer::MaxByKey => {
                // last maximal element by position parity: exercises reduce/fold
                let mut i = 0usize;
                it.max_by_key(|_| {
                    i += 1;
                    i % 2
                })
                .map(f)
                .into_iter()
                .collect()
            }
            Consumer::FindThenLen => {
                let mut it = it;
                let mut n = 0usize;
                let x = it.find(|_| {
                    n += 1;
                    n == 2
                });
                let mut v: Vec<Obs> = x.map(f).into_iter().collect();
                v.push(Obs::D(ExactSizeIterator::len(&it) as i128));
                v
            }
            Consumer::ZipSelfLen => {
                let l = ExactSizeIterator::len(&it);
                let z = it.zip(0..l);
                let zl = ExactSizeIterator::len(&z);
                let mut v = vec![Obs::D(zl as i128)];
                for (x, i) in z.rev() {
                    v.push(Obs::D(i as i128));
                    v.push(f(x));
                }
                v
            }
            Consumer::Reduce => {
                // keeps the left or the right operand alternately: observes the pairing order of reduce
                let mut k = 0usize;
                it.reduce(|a, b| {
                    k += 1;
                    if k % 3 == 0 {
                        a
                    } else {
                        b
                    }
                })
                .map(f)
                .into_iter()
                .collect()
            }
            Consumer::AllThenRest => {
                let mut it = it;
                let mut n = 0usize;
                let r = it.all(|_| {
                    n += 1;
                    n < 2
                });
                let mut v = vec![Obs::D(r as i128), Obs::D(n as i128)];
                v.extend(it.map(f));
                v
            }
            Consumer::AnyThenRest => {
                let mut it = it;
                let mut n = 0usize;
                let r = it.any(|_| {
                    n += 1;
                    n == 2
                });
                let mut v = vec![Obs::D(r as i128), Obs::D(n as i128)];
                v.extend(it.rev().map(f));
                v
            }
            Consumer::FindMapThenRest => {
                let mut it = it;
                let mut n = 0usize;
                let r = it.find_map(|x| {
                    n += 1;
                    if n == 2 {
                        Some(f(x))
                    } else {
                        None
                    }
                });
                let mut v: Vec<Obs> = r.into_iter().collect();
                v.push(Obs::D(-7));
                v.extend(it.map(f));
                v
            }
            Consumer::RfindThenRest => {
                let mut it = it;
                let mut n = 0usize;
                let r = it.rfind(|_| {
                    n += 1;
                    n == 2
                });
                let mut v: Vec<Obs> = r.map(f).into_iter().collect();
                v.push(Obs::D(-7));
                v.extend(it.map(f));
                v
            }
            Consumer::MaxBy => {
                // every element compares Equal: max_by must return the LAST one, and see every element once
                let mut n = 0usize;
                let r = it.max_by(|_, _| {
                    n += 1;
                    ::core::cmp::Ordering::Equal
                });
                let mut v: Vec<Obs> = r.map(f).into_iter().collect();
                v.push(Obs::D(n as i128));
                v
            }
            Consumer::MinBy => {
                // every element compares Equal: min_by must return the FIRST one
                let mut n = 0usize;
                let r = it.min_by(|_, _| {
                    n += 1;
                    ::core::cmp::Ordering::Equal
                });
                let mut v: Vec<Obs> = r.map(f).into_iter().collect();
                v.push(Obs::D(n as i128));
                v
            }
            Consumer::MinByKey => {
                let mut i = 0usize;
                it.min_by_key(|_| {
                    i += 1;
                    (i + 1) % 3
                })
                .map(f)
                .into_iter()
                .collect()
            }
            Consumer::Partition => {
                let mut i = 0usize;
                let (a, b): (Vec<T>, Vec<T>) = it.partition(|_| {
                    i += 1;
                    i % 2 == 0
                });
                let mut v: Vec<Obs> = a.into_iter().map(f).collect();
                v.push(Obs::D(-7));
                v.extend(b.into_iter().map(f));
                v
            }
            Consumer::IsSortedByKey => {
                let mut i = 0usize;
                let r = it.is_sorted_by_key(|_| {
                    i += 1;
                    i
                });
                vec![Obs::D(r as i128), Obs::D(i as i128)]
            }
            Consumer::ByRefTake1ThenLast => {
                let mut it = it;
                let mut v: Vec<Obs> = it.by_ref().take(1).map(f).collect();
                v.push(Obs::D(ExactSizeIterator::len(&it) as i128));
                v.extend(it.last().map(f));
                v
            }
            Consumer::ChainOnceNthBack => {
                // Chain forwards nth_back / nth / fold to the generated iterator after its own tail is used up
                let mut ch = it.chain(::core::option::Option::<T>::None);
                let mut v: Vec<Obs> = ch.nth_back(1).map(f).into_iter().collect();
                v.push(Obs::D(-7));
                v.extend(ch.nth(1).map(f));
                v.push(Obs::D(-7));
                v.extend(ch.map(f));
                v
            }
            Consumer::FuseDrainThenPoll => {
                // the iterator claims FusedIterator, so Fuse forwards to it even after it returned None
                let mut fu = it.fuse();
                let mut n = 0i128;
                while fu.next().is_some() {
                    n += 1;
                }
                let mut v = vec![Obs::D(n)];
                for _ in 0..3 {
                    v.push(Obs::D(fu.next().is_some() as i128));
                    v.push(Obs::D(fu.next_back().is_some() as i128));
                    v.push(Obs::D(fu.nth(1).is_some() as i128));
                    v.push(Obs::D(fu.nth_back(0).is_some() as i128));
                    v.push(Obs::D(fu.size_hint().0 as i128));
                }
                v
            }
            Consumer::PeekableCollect => {
                let mut pk = it.peekable();
                let mut v = vec![Obs::D(pk.peek().is_some() as i128), Obs::D(ExactSizeIterator::len(&pk) as i128)];
                v.extend(pk.next_back().map(f));
                v.push(Obs::D(-7));
                v.extend(pk.map(f));
                v
            }
            Consumer::SkipWhileCollect => {
                let mut n = 0usize;
                it.skip_while(|_| {
                    n += 1;
                    n < 3
                })
                .map(f)
                .collect()
            }
            Consumer::CountAfterNextBack => {
                let mut it = it;
                let mut v: Vec<Obs> = it.next_back().map(f).into_iter().collect();
                v.push(Obs::D(it.count() as i128));
                v
            }
            Consumer::LastAfterNthBack => {
                let mut it = it;
                let mut v: Vec<Obs> = it.nth_back(1).map(f).into_iter().collect();
                v.push(Obs::D(-7));
                v.extend(it.last().map(f));
                v
            }
            Consumer::RevFoldAfterNext => {
                let mut it = it;
                let mut v: Vec<Obs> = it.next().map(f).into_iter().collect();
                v.push(Obs::D(-7));
                it.rev().fold(v, |mut v, x| {
                    v.push(f(x));
                    v
                })
            }
            Consumer::TryForEachThenLen => {
                let mut it = it;
                let mut n = 0usize;
                let r = it.try_for_each(|_| {
                    n += 1;
                    if n == 3 {
                        Err(())
                    } else {
                        Ok(())
                    }
                });
                vec![Obs::D(r.is_ok() as i128), Obs::D(ExactSizeIterator::len(&it) as i128)]
            }
            Consumer::RevRfind => {
                // Rev::rfind is the inner iterator's find
                let mut r = it.rev();
                let mut n = 0usize;
                let x = r.rfind(|_| {
                    n += 1;
                    n == 2
                });
                let mut v: Vec<Obs> = x.map(f).into_iter().collect();
                v.push(Obs::D(-7));
                v.extend(r.map(f));
                v
            }
        }
}

#[derive(Clone, Copy, Debug, PartialEq, Eq, Hash)]
pub enum Op {
    Next,
    NextBack,
    Nth(usize),
    NthBack(usize),
}

impl Op {
    pub fn show(&self) -> String {
        match self {
            Op::Next => "next()".into(),
            Op::NextBack => "next_back()".into(),
            Op::Nth(k) if *k == usize::MAX => "nth(usize::MAX)".into(),
            Op::NthBack(k) if *k == usize::MAX => "nth_back(usize::MAX)".into(),
            Op::Nth(k) => format!("nth({k})"),
            Op::NthBack(k) => format!("nth_back({k})"),
        }
    }
}

pub const SIGMA1: [Op; 12] = [
    Op::Next,
    Op::NextBack,
    Op::Nth(0),
    Op::Nth(1),
    Op::Nth(2),
    Op::Nth(3),
    Op::Nth(usize::MAX),
    Op::NthBack(0),
    Op::NthBack(1),
    Op::NthBack(2),
    Op::NthBack(3),
    Op::NthBack(usize::MAX),
];
pub const SIGMA2: [Op; 4] = [Op::Next, Op::NextBack, Op::Nth(1), Op::NthBack(1)];

/// reference iterator: a window [lo, hi) of the expected list
#[derive(Clone, Copy)]
struct Model {
    lo: usize,
    hi: usize,
}

impl Model {
    fn step(&mut self, op: Op) -> Option<usize> {
        match op {
            Op::Next => self.step(Op::Nth(0)),
            Op::NextBack => self.step(Op::NthBack(0)),
            Op::Nth(k) => {
                if k >= self.hi - self.lo {
                    self.lo = self.hi;
                    None
                } else {
                    self.lo += k;
                    let r = self.lo;
                    self.lo += 1;
                    Some(r)
                }
            }
            Op::NthBack(k) => {
                if k >= self.hi - self.lo {
                    self.hi = self.lo;
                    None
                } else {
                    self.hi -= k;
                    self.hi -= 1;
                    Some(self.hi)
                }
            }
        }
    }
    fn canon(&self) -> (usize, usize) {
        if self.lo >= self.hi {
            (0, 0)
        } else {
            (self.lo, self.hi)
        }
    }
}

fn model_consume(exp: &[Obs], c: Consumer) -> Vec<Obs> {
    match c {
        Consumer::Fold | Consumer::Collect | Consumer::ForEach => exp.to_vec(),
        Consumer::Rfold | Consumer::RevCollect => exp.iter().rev().cloned().collect(),
        Consumer::Last => exp.last().cloned().into_iter().collect(),
        Consumer::Count => vec![Obs::D(exp.len() as i128)],
        Consumer::RevNth1 => exp.iter().rev().nth(1).cloned().into_iter().collect(),
        Consumer::Skip1RevCollect => exp.iter().skip(1).rev().cloned().collect(),
        Consumer::EnumerateRevCollect => {
            let mut v = Vec::new();
            for (i, x) in exp.iter().enumerate().rev() {
                v.push(Obs::D(i as i128));
                v.push(x.clone());
            }
            v
        }
        Consumer::StepBy2Collect => exp.iter().step_by(2).cloned().collect(),
        Consumer::Take2RevCollect => exp.iter().take(2).rev().cloned().collect(),
        Consumer::Position => {
            if exp.len() >= 3 {
                let mut v = vec![Obs::D(2)];
                v.extend(exp[3..].iter().cloned());
                v
            } else {
                vec![Obs::D(-1)]
            }
        }
        Consumer::Rposition => {
            if exp.len() >= 2 {
                let mut v = vec![Obs::D(exp.len() as i128 - 2)];
                v.extend(exp[..exp.len() - 2].iter().cloned());
                v
            } else {
                vec![Obs::D(-1)]
            }
        }
        Consumer::TryFold2ThenCollect => {
            let k = exp.len().min(2);
            let mut v: Vec<Obs> = exp[..k].to_vec();
            v.push(Obs::D(-7));
            v.extend(exp[k..].iter().cloned());
            v
        }
        Consumer::TryRfold2ThenRevCollect => {
            let k = exp.len().min(2);
            let mut v: Vec<Obs> = exp.iter().rev().take(k).cloned().collect();
            v.push(Obs::D(-7));
            v.extend(exp[..exp.len() - k].iter().rev().cloned());
            v
        }
        Consumer::MaxByKey => {
            // keys 1,0,1,0,…: max_by_key returns the LAST element with the maximal key (key 1 = odd positions counted from 1)
            let mut best: Option<&Obs> = None;
            for (i, x) in exp.iter().enumerate() {
                if (i + 1) % 2 == 1 {
                    best = Some(x);
                }
            }
            best.cloned().into_iter().collect()
        }
        Consumer::FindThenLen => {
            if exp.len() >= 2 {
                vec![exp[1].clone(), Obs::D(exp.len() as i128 - 2)]
            } else {
                vec![Obs::D(0)]
            }
        }
        Consumer::ZipSelfLen => {
            let mut v = vec![Obs::D(exp.len() as i128)];
            for (i, x) in exp.iter().enumerate().rev() {
                v.push(Obs::D(i as i128));
                v.push(x.clone());
            }
            v
        }
        _ => consume_generic(exp.to_vec().into_iter(), |x: Obs| x, c),
    }
}

fn model_consume_ord(exp: &[Obs], c: OrdConsumer) -> Vec<Obs> {
    let v: Vec<&'static str> = exp
        .iter()
        .map(|o| match o {
            Obs::S(s) => *s,
            Obs::D(_) => unreachable!("Ord consumers run on names only"),
        })
        .collect();
    consume_ord(v.into_iter(), c)
}

fn show_obs(o: &Option<Obs>) -> String {
    match o {
        Some(x) => format!("Some({})", x.show()),
        None => "None".into(),
    }
}

fn show_vec(v: &[Obs]) -> String {
    let mut s = String::from("[");
    for (i, x) in v.iter().enumerate() {
        if i > 0 {
            s.push_str(", ");
        }
        if i >= 24 {
            s.push_str(&format!("… ({} items)", v.len()));
            break;
        }
        s.push_str(&x.show());
    }
    s.push(']');
    s
}

fn show_hist(h: &[Op]) -> String {
    h.iter().map(|o| o.show()).collect::<Vec<_>>().join("; ")
}

/// Explore all histories over `sigma` of length 1..=depth (shortest first) for the iterator
/// produced by `mk`, whose expected content is `exp`. Returns false when a violation stopped it.
fn explore(
    c: &mut Ctx,
    kind: &'static str,
    what: &str,
    mk: &dyn Fn() -> Box<dyn DynIter>,
    exp: &[Obs],
    sigma: &[Op],
    depth: u32,
    consumers: bool,
) -> bool {
    let n = exp.len();
    // depth 0 is the fresh iterator; then all histories of length 1, 2, … (shortest first)
    for d in 0..=depth as usize {
        let mut idx = vec![0usize; d];
        'odo: loop {
            let hist: Vec<Op> = idx.iter().map(|&i| sigma[i]).collect();
            if !check_node(c, kind, what, mk, exp, &hist, consumers, n) {
                return false;
            }
            if (d as u32) > c.st.max_depth {
                c.st.max_depth = d as u32;
            }
            let mut p = d;
            loop {
                if p == 0 {
                    break 'odo;
                }
                p -= 1;
                idx[p] += 1;
                if idx[p] < sigma.len() {
                    break;
                }
                idx[p] = 0;
            }
        }
    }
    true
}

fn check_node(
    c: &mut Ctx,
    kind: &'static str,
    what: &str,
    mk: &dyn Fn() -> Box<dyn DynIter>,
    exp: &[Obs],
    hist: &[Op],
    consumers: bool,
    n: usize,
) -> bool {
    // replay on a fresh iterator, lock-step with the model
    let replay = |c: &mut Ctx, count: bool| -> Result<(Box<dyn DynIter>, Model), ()> {
        let mut it = match guard(|| mk()) {
            Ok(it) => it,
            Err(p) => {
                c.violation(kind, &format!("{what}"), "an iterator", &format!("PANIC: {p}"));
                return Err(());
            }
        };
        let mut m = Model { lo: 0, hi: n };
        for (i, op) in hist.iter().enumerate() {
            let want = m.step(*op).map(|x| exp[x].clone());
            let got = guard(|| match *op {
                Op::Next => it.next(),
                Op::NextBack => it.next_back(),
                Op::Nth(k) => it.nth(k),
                Op::NthBack(k) => it.nth_back(k),
            });
            if count {
                c.st.transitions += 1;
                c.st.h(kind, &(i, got.clone().ok()));
            }
            match got {
                Ok(g) if g == want => {}
                Ok(g) => {
                    c.violation(
                        kind,
                        &format!("{what}: {}", show_hist(&hist[..=i])),
                        &show_obs(&want),
                        &show_obs(&g),
                    );
                    return Err(());
                }
                Err(p) => {
                    c.violation(kind, &format!("{what}: {}", show_hist(&hist[..=i])), &show_obs(&want), &format!("PANIC: {p}"));
                    return Err(());
                }
            }
        }
        Ok((it, m))
    };
    let (it, m) = match replay(c, true) {
        Ok(x) => x,
        Err(()) => return false,
    };
    c.st.states += 1;
    c.st.model_states.insert(m.canon());
    let rem = m.hi - m.lo;
    if rem < n {
        c.st.nontrivial += 1;
    }
    // observations at every node
    let consumers = consumers && it.full();
    let l = guard(|| it.len());
    let sh = guard(|| it.size_hint());
    c.st.transitions += 2;
    c.st.h(kind, &(l.clone().ok(), sh.clone().ok()));
    if l != Ok(rem) {
        c.violation(kind, &format!("{what}: {}; len()", show_hist(hist)), &format!("{rem}"), &format!("{l:?}"));
        return false;
    }
    if sh != Ok((rem, Some(rem))) {
        c.violation(kind, &format!("{what}: {}; size_hint()", show_hist(hist)), &format!("({rem}, Some({rem}))"), &format!("{sh:?}"));
        return false;
    }
    drop(it);
    if !c.s.light {
        // the first 19 consumers at every node; the second group (and the Ord group) at the fresh iterator and after histories of
        // length <= 2 (most nodes are deeper: this keeps the cost of the second group proportional to the shallow part of the tree)
        let shallow = hist.len() <= 2;
        let list: &[Consumer] = if !consumers {
            &LIGHT_CONSUMERS
        } else if shallow {
            &CONSUMERS
        } else {
            &CONSUMERS[..19]
        };
        for &cons in list {
            let (it, m) = match replay(c, false) {
                Ok(x) => x,
                Err(()) => {
                    // the same history just succeeded: the subject is not deterministic
                    c.machinery.push(format!("{}: replay of {} diverged", c.s.id, show_hist(hist)));
                    return false;
                }
            };
            let want = model_consume(&exp[m.lo..m.hi], cons);
            let got = guard(move || it.consume(cons));
            c.st.transitions += 1;
            c.st.h(kind, &(cons, got.clone().ok()));
            match got {
                Ok(g) if g == want => {}
                Ok(g) => {
                    c.violation(kind, &format!("{what}: {}; {cons:?}", show_hist(hist)), &show_vec(&want), &show_vec(&g));
                    return false;
                }
                Err(p) => {
                    c.violation(kind, &format!("{what}: {}; {cons:?}", show_hist(hist)), &show_vec(&want), &format!("PANIC: {p}"));
                    return false;
                }
            }
        }
        for cons in ORD_CONSUMERS {
            if !consumers || hist.len() > 2 {
                break;
            }
            let (it, m) = match replay(c, false) {
                Ok(x) => x,
                Err(()) => {
                    c.machinery.push(format!("{}: replay of {} diverged", c.s.id, show_hist(hist)));
                    return false;
                }
            };
            let got = guard(move || it.consume_ord(cons));
            if let Ok(None) = got {
                break; // items are not Ord
            }
            let want = model_consume_ord(&exp[m.lo..m.hi], cons);
            c.st.transitions += 1;
            c.st.h(kind, &(cons, got.clone().ok()));
            match got {
                Ok(Some(g)) if g == want => {}
                Ok(g) => {
                    c.violation(kind, &format!("{what}: {}; Ord::{cons:?}", show_hist(hist)), &show_vec(&want), &show_vec(&g.unwrap_or_default()));
                    return false;
                }
                Err(p) => {
                    c.violation(kind, &format!("{what}: {}; Ord::{cons:?}", show_hist(hist)), &show_vec(&want), &format!("PANIC: {p}"));
                    return false;
                }
            }
        }
    }
    true
}

fn explore_both(
    c: &mut Ctx,
    kind: &'static str,
    what: &str,
    mk: &dyn Fn() -> Box<dyn DynIter>,
    exp: &[Obs],
    x1: u32,
    x2: u32,
    consumers: bool,
) -> bool {
    if !explore(c, kind, what, mk, exp, &SIGMA1, x1, consumers) {
        return false;
    }
    if x2 > 0 {
        if !explore(c, kind, what, mk, exp, &SIGMA2, x2, consumers) {
            return false;
        }
    }
    true
}

pub const MS_NONE: Obs = Obs::S("\u{0}none");

/// What the method-syntax script of the glue (lib/e3.py `MS_SCRIPT`) must observe on a list `exp`.
pub fn ms_expected(exp: &[Obs]) -> Vec<Obs> {
    let mut m = Model { lo: 0, hi: exp.len() };
    let mut v = Vec::new();
    let o = |x: Option<usize>| x.map_or(MS_NONE, |i| exp[i].clone());
    let l = |m: &Model| Obs::D((m.hi - m.lo) as i128);
    v.push(l(&m));
    let x = m.step(Op::Next);
    v.push(o(x));
    v.push(l(&m));
    let x = m.step(Op::NextBack);
    v.push(o(x));
    v.push(l(&m));
    v.push(l(&m));
    v.push(l(&m));
    let x = m.step(Op::Nth(1));
    v.push(o(x));
    v.push(l(&m));
    let x = m.step(Op::NthBack(0));
    v.push(o(x));
    v.push(l(&m));
    v.push(l(&m)); // count() of the rest
    // fresh iterators
    v.push(exp.last().cloned().unwrap_or(MS_NONE)); // last()
    v.push(exp.last().cloned().unwrap_or(MS_NONE)); // rev().next()
    v.push(Obs::D(exp.len() as i128)); // fold counting
    v.push(exp.get(2).cloned().unwrap_or(MS_NONE)); // skip(2).next()
    v.push(Obs::D(exp.len() as i128)); // len() of a fresh iterator
    v
}

fn phase_ms(c: &mut Ctx, kind: &'static str, f: fn() -> Vec<Obs>, exp: &[Obs]) {
    let want = ms_expected(exp);
    let got = guard(f);
    c.st.transitions += want.len() as u64;
    match got {
        Ok(g) if g == want => {}
        Ok(g) => {
            let k = (0..want.len().min(g.len())).find(|&i| want[i] != g[i]).unwrap_or(want.len().min(g.len()));
            c.violation(kind, &format!("{kind}: method-call-syntax script, observation #{k} (len, next, len, next_back, len, size_hint.0, size_hint.1, nth(1), len, nth_back(0), len, count, last, rev.next, fold-count, skip(2).next, fresh len)"),
                        &show_vec(&want), &show_vec(&g));
        }
        Err(p) => {
            c.violation(kind, &format!("{kind}: method-call-syntax script"), &show_vec(&want), &format!("PANIC: {p}"));
        }
    }
}

pub fn phase_iter(c: &mut Ctx) {
    let s = c.s;
    let Some(mk) = s.iter else { return };
    out(&format!("P {} iter", s.id));
    let exp: Vec<Obs> = c.model.iter().map(|p| Obs::D(p.0)).collect();
    let x2 = (exp.len() as u32 + s.x2_extra).min(s.x2_cap);
    explore_both(c, "iter", "iter()", &|| mk(), &exp, s.x1_depth, x2, s.consumers);
    if let Some(f) = s.iter_ms {
        phase_ms(c, "iter", f, &exp);
    }
    c.st.oc("iter:explored");
}

pub fn phase_names(c: &mut Ctx) {
    let s = c.s;
    let Some(mk) = s.names else { return };
    out(&format!("P {} names", s.id));
    let exp: Vec<Obs> = c.model.iter().map(|p| Obs::S(p.1)).collect();
    let x2 = (exp.len() as u32 + s.x2_extra).min(s.x2_cap);
    explore_both(c, "names", "names()", &|| mk(), &exp, s.x1_depth, x2, s.consumers);
    if let Some(f) = s.names_ms {
        phase_ms(c, "names", f, &exp);
    }
    c.st.oc("names:explored");
    if let Some(z) = s.zip {
        let want: Vec<(i128, &'static str)> = c.model.iter().map(|p| (p.0, p.1)).collect();
        let got = guard(z);
        c.st.transitions += 1;
        c.st.h("zip(iter,names)", &got.clone().ok());
        if got.as_ref() != Ok(&want) {
            c.violation("names", "iter().zip(names()).collect()", &format!("{:?}", &want[..want.len().min(12)]), &format!("{:?}", got.map(|v| v.into_iter().take(12).collect::<Vec<_>>())));
        }
        // as_str alignment
        if let Some(as_str) = s.as_str {
            for si in 0..c.model.len() {
                let di = c.model[si].2;
                let r = guard(|| as_str(di));
                if r != Ok(c.model[si].1) {
                    c.violation("names", &format!("as_str of zip element {si}"), &format!("{:?}", c.model[si].1), &format!("{r:?}"));
                    break;
                }
            }
        }
    }
}

pub fn phase_range(c: &mut Ctx) {
    let s = c.s;
    let Some(rf) = s.range else { return };
    out(&format!("P {} range", s.id));
    let n = c.model.len();
    let mut pairs: Vec<(usize, usize)> = Vec::new();
    if s.range_pair_step == 0 {
        for a in 0..n {
            for b in 0..n {
                pairs.push((a, b));
            }
        }
    } else {
        let k = s.range_pair_step as usize;
        let mut cnt = 0usize;
        for a in 0..n {
            for b in 0..n {
                let special = a == b && (a % 50 == 0 || a + 1 == n)
                    || (a == 0 && b == n - 1)
                    || (a == n - 1 && b == 0)
                    || (a == 0 && b == 0)
                    || (a + 1 == b && a % 97 == 0)
                    || (b + 1 == a && a % 89 == 0)
                    || (b + 2 == a && a % 83 == 0);
                if special || cnt % k == 0 {
                    pairs.push((a, b));
                }
                cnt += 1;
            }
        }
    }
    for (a, b) in pairs {
        if c.viol_per_kind.get("range").copied().unwrap_or(0) >= c.max_viol_per_kind {
            break;
        }
        let (da, db) = (c.model[a].0, c.model[b].0);
        let exp: Vec<Obs> = if a <= b { c.model[a..=b].iter().map(|p| Obs::D(p.0)).collect() } else { Vec::new() };
        let (ia, ib) = (c.model[a].2, c.model[b].2);
        let what = format!("range(E::{}, E::{}) [disc {da}..={db}]", s.decl[ia].1, s.decl[ib].1);
        if a > b {
            c.st.oc("range:reversed-empty");
        } else if a == b {
            c.st.oc("range:single");
        } else {
            c.st.oc("range:nonempty");
        }
        c.st.h("range", &(da, db));
        let x2 = (exp.len() as u32 + s.range_x2_extra).min(s.x2_cap);
        explore_both(c, "range", &what, &|| rf(ia, ib), &exp, s.range_x1_depth, x2, s.consumers);
    }
}
