"""C17 (determinism: all hash-map iteration orders through the seam), C18 (order/repr independence)."""
import concurrent.futures as cf
import itertools
import os
import re
import subprocess

import catalogue
import e1
import enums
from common import ENV, NCPU, REPO, MachineryError, Result, log
from e3 import Config, Subj
from e3check import compare_transcripts, explore
from enums import ALL_REPRS, REPRS, SIGNED, EnumDecl, Variant, make_decl, rmax, rmin

# ------------------------------------------------------------------------------------------ C17


def c17_configs(gapless):
    full_t = catalogue.full_config(gapless, {"as_str": "table", "from_str": "table", "FromStr": "table", "iter": "table"})
    full_m = catalogue.full_config(gapless, {"as_str": "match", "from_str": "match", "FromStr": "match", "iter": "next_and_back"})
    named = catalogue.full_config(gapless, {}, names=True)
    n = len(full_t.feats)
    split3 = Config(full_t.feats, split=[list(range(0, n, 3)), list(range(1, n, 3)), list(range(2, n, 3))])
    vis = Config([("as_str", {"vis": "pub(crate)", "name": "label", "mode": "table"}), ("iter", {"vis": "", "struct_name": "It", "name": "all"}),
                  ("names", {"struct_name": "Nm", "vis": "pub"}), ("MIN", {"name": "FIRST", "vis": "pub"}), "Debug", "TryFrom", ("sorted", {})])
    sv = Config(list(full_t.feats) + [("sorted", {"value": None})])
    snv = Config(list(full_m.feats) + [("sorted", {"name": None, "value": None})])
    # sorted(name) next to the table modes (seed C17-r6m2: a by-name table for from_str taken from the hash-ordered list)
    snt = Config(list(full_t.feats) + [("sorted", {"name": None})])
    snvt = Config(list(full_t.feats) + [("sorted", {"name": None, "value": None})])
    return [("full-table", full_t), ("full-match", full_m), ("sorted-value", sv), ("named", named), ("split3", split3), ("params", vis),
            ("sorted-name-value", snv), ("sorted-name-table", snt), ("sorted-name-value-table", snvt)]


def run_orders(decl_texts, cap=200000):
    exe = e1.build(seam=True)
    chunks = [decl_texts[i::NCPU] for i in range(NCPU)]
    idx = [list(range(len(decl_texts)))[i::NCPU] for i in range(NCPU)]

    def one(chunk):
        if not chunk:
            return ""
        p = subprocess.run([exe, "orders", "--cap", str(cap)], input=(e1.SEP.join(chunk) + e1.SEP).encode(),
                           stdout=subprocess.PIPE, stderr=subprocess.PIPE, env=ENV, timeout=7200)
        out = p.stdout.decode(errors="replace")
        if p.returncode != 0 or not out.rstrip().endswith("END"):
            raise MachineryError("xpand orders failed: " + p.stderr.decode(errors="replace")[-2000:])
        return out
    results = [None] * len(decl_texts)
    with cf.ThreadPoolExecutor(max_workers=NCPU) as ex:
        outs = list(ex.map(one, chunks))
    for ci, out in enumerate(outs):
        for line in out.splitlines():
            c = line.split("\t")
            if c[0] == "DECL":
                gi = idx[ci][int(c[1])]
                d = {"errors": [], "outcomes": []}
                for kv in c[2:]:
                    k, _, v = kv.partition("=")
                    d[k] = (v == "true") if v in ("true", "false") else int(v)
                results[gi] = d
            elif c[0] == "ERROR":
                results[idx[ci][int(c[1])]]["errors"].append(c[2])
            elif c[0] == "OUTCOME":
                results[idx[ci][int(c[1])]]["outcomes"].append((c[2], c[3]))
    return results


AUDIT_RE = re.compile(r"HashMap|HashSet|RandomState|BTreeMap<\*const|thread_local|static mut|SystemTime|Instant|env::|process::id|DefaultHasher|rand::|getrandom|as \*const|\{:p\}")


def audit_sources():
    """Textual scan for per-process state outside the seam (warning + evidence only, never a verdict)."""
    hits = []
    for root, _d, files in os.walk(os.path.join(REPO, "src")):
        for fn in files:
            if not fn.endswith(".rs") or fn == "verif_seam.rs":
                continue
            p = os.path.join(root, fn)
            lines = open(p).read().splitlines()
            for i, line in enumerate(lines):
                if AUDIT_RE.search(line):
                    prev = lines[i - 1].strip() if i else ""
                    # the three seam-guarded imports and plain uses of the imported name `HashMap` are controlled
                    if "use std::collections::HashMap;" in line and prev == "#[cfg(not(enum_tools_verif))]":
                        continue
                    if "use crate::verif_seam::HashMap;" in line:
                        continue
                    if re.search(r"\bHashMap\b", line) and "std::collections" not in line and "use " not in line:
                        # usage of the (seam-controlled) imported name
                        if any("use crate::verif_seam::HashMap;" in l for l in lines):
                            continue
                    hits.append("%s:%d: %s" % (os.path.relpath(p, REPO), i + 1, line.strip()[:120]))
    return hits


def c17(tier):
    res = Result("C17", tier, "exhaustive exploration of every iteration order of every hash map of the real parser (seam scheduler, prefix-replay DFS over choice vectors); "
                               "one distinct expansion required per declaration")
    decls = []   # (label, text)
    maxn = 5 if tier == "quick" else 6
    window = [-3, -2, -1, 0, 1, 2]
    # family S: all n! declaration orders for n <= 3 (quick) / 4, then every subset of the window in one scrambled order
    for n in range(1, (3 if tier == "quick" else 4) + 1):
        for comb in itertools.combinations(window, n):
            for perm in itertools.permutations(comb):
                d = make_decl("i8", list(perm), renames=True, salt=len(decls))
                for lab, cfg in c17_configs(d.gapless)[:3 if n > 2 else 9]:
                    decls.append(("S%s/%s" % (list(perm), lab), d.render(cfg.attr_lines(), indent="")))
    for n in range(4, maxn + 1):
        for comb in itertools.combinations(window, n):
            d = make_decl("i8", [comb[j] for j in enums.scramble(n)], renames=True, salt=n)
            for lab, cfg in c17_configs(d.gapless):
                decls.append(("W%s/%s" % (list(comb), lab), d.render(cfg.attr_lines(), indent="")))
    if tier == "thorough":
        d = make_decl("i16", [5, -3, 100, 0, 7, -32768, 6], renames=True, salt=1)
        for lab, cfg in c17_configs(d.gapless)[:3]:
            decls.append(("seven/%s" % lab, d.render(cfg.attr_lines(), indent="")))
        d = make_decl("u64", [5, 3, 100, 0, 7, 1 << 40, 6, 4], renames=True, salt=2)
        for lab, cfg in c17_configs(d.gapless)[:2]:
            decls.append(("eight/%s" % lab, d.render(cfg.attr_lines(), indent="")))
    # declarations in ascending order (legal under sorted(value)), and truncation/sign aliases on wide reprs
    for n in range(2, maxn + 1):
        d = make_decl("i16", list(range(-2, -2 + n)), renames=False)
        d2 = make_decl("i16", [x * 3 for x in range(-1, n - 1)], renames=False)
        for dd in (d, d2):
            for lab, cfg in c17_configs(dd.gapless):
                decls.append(("asc%d/%s" % (n, lab), dd.render(cfg.attr_lines(), indent="")))
    for r in ("i16", "u32", "i64", "u64", "i128"):
        for d in enums.family_A(r):
            for lab, cfg in c17_configs(d.gapless)[:3]:
                decls.append(("alias%s%s/%s" % (r, d.tag["set"], lab), d.render(cfg.attr_lines(), indent="")))
            ds = make_decl(r, sorted(d.tag["set"]), renames=False)
            lab, cfg = c17_configs(ds.gapless)[2]
            decls.append(("alias-asc%s%s/%s" % (r, d.tag["set"], lab), ds.render(cfg.attr_lines(), indent="")))
    # implicit discriminants and mixed
    for vs in ([None, None, None], ["5", None, "-1", None], [None, "10", None, "3"]):
        d = EnumDecl("i32", [Variant("V%d" % i, lit=l) for i, l in enumerate(vs)])
        for lab, cfg in c17_configs(d.gapless)[:3]:
            decls.append(("implicit%s/%s" % (vs, lab), d.render(cfg.attr_lines(), indent="")))
    # erroneous declarations with several unknown features / parameters (further choice points; diagnostics compared as a set)
    decls.append(("err/unknown-features", "#[enum_tools(bogus1, bogus2, bogus3, into)] #[repr(u8)] pub enum E { A, B, C }"))
    decls.append(("err/unknown-params", "#[enum_tools(as_str(x = \"1\", y = \"2\", z = \"3\"))] #[repr(u8)] pub enum E { A, B, C }"))
    # strip the derive line: xpand takes the derive input itself
    texts = [re.sub(r"#\[derive\([^)]*\)\]\s*", "", t) for _, t in decls]
    results = run_orders(texts)
    for (lab, _t), text, r in zip(decls, texts, results):
        if r is None:
            res.machinery_error("no result for declaration %s" % lab)
            continue
        res.states += 1
        res.transitions += r["executions"]
        res.validated += r["executions"]
        if r["max_alts"] > 1:
            res.nontrivial.add(lab)
        res.outcome("alternatives<=%d" % r["max_alts"])
        if r["capped"]:
            res.exhaustive = False
            res.outcome("capped")
        nondet = [e for e in r["errors"] if "same schedule" in e]
        for e in r["errors"]:
            if e not in nondet:
                res.machinery_error("%s: %s" % (lab, e))
        if nondet:
            # the same declaration under the SAME iteration orders expanded differently within one process: per-process / per-instance
            # state outside the seam (e.g. a std HashMap with its own RandomState) reaches the output
            res.violation({"kind": "expansion-differs-under-identical-schedule", "declaration": text[:300]},
                          {"note": nondet[0], "declaration_full": text, "distinct_expansions": r["distinct"]},
                          {"repro.rs": "// expanding this declaration twice in one process gives different code:\n// %s\nfn main() {}\n" % text.replace("\n", " ")})
        elif r["distinct"] != 1 and not r["errors"]:
            res.violation({"kind": "expansion-depends-on-map-iteration-order", "declaration": text[:300]},
                          {"distinct_expansions": r["distinct"], "schedules_and_texts": r["outcomes"][:2], "declaration_full": text},
                          {"repro.rs": "// two iteration orders of the parser's maps give different expansions for:\n// %s\n// schedules: %s\nfn main() {}\n" % (
                              text.replace("\n", " "), [o[0] for o in r["outcomes"][:2]])})
    # supplementary (sampling, labelled so): fresh-process replication with the real std HashMap / RandomState
    exe = e1.build(seam=False)
    rep_decls = [t for t in texts[:: max(1, len(texts) // 12)]][:12]
    big = make_decl("i32", [(i * 37) % 101 - 50 for i in range(40)], renames=True, salt=3)
    rep_decls.append(re.sub(r"#\[derive\([^)]*\)\]\s*", "", big.render(c17_configs(False)[0][1].attr_lines(), indent="")))
    nproc = 6 if tier == "quick" else 16
    outs = []
    for _ in range(nproc):
        p = subprocess.run([exe, "expand"], input=(e1.SEP.join(rep_decls) + e1.SEP).encode(), stdout=subprocess.PIPE, stderr=subprocess.PIPE, env=ENV)
        outs.append(p.stdout)
    # the same declarations expanded after DIFFERENT histories (reverse order, each alone): state kept between invocations of
    # the derive inside one compiler process must not reach the output
    hist = texts[:: max(1, len(texts) // 40)][:40] + rep_decls[-1:]
    n_base = len(hist)
    # same enum name, different shape / repr / iterator mode (seed T4-r7m2: generated impl text cached per (struct name, item type); the
    # cached text of a table iterator was reused for a later range iterator of a wide repr)
    strip = lambda t: re.sub(r"#\[derive\([^)]*\)\]\s*", "", t)
    for r in ("i32", "u64", "i128", "usize", "i8"):
        g, h = make_decl(r, [3, 4, 5], renames=False), make_decl(r, [1, 5, 9], renames=False)
        for d, cfgs_ in ((h, (Config([("iter", {"mode": "table"}), "range", "names"]), Config([("iter", {"mode": "next_and_back"}), "range"]))),
                         (g, (Config([("iter", {"mode": "range"}), "range", "names"]), Config(["iter", "range"]), Config([("iter", {"mode": "table"}), "names"]),
                              Config([("iter", {"mode": "table_inline"})]))),
                         (h, (Config(["iter", "names", "as_str", "from_str"]),))):
            for c_ in cfgs_:
                hist.append(strip(d.render(c_.attr_lines(), indent="")))
    fwd = e1.expand_many(hist)
    rev = e1.expand_many(hist[::-1])[::-1]
    # (forward and reverse order can be wrong in the same way when the first declaration of either order fills the cache: the
    #  same-name family is therefore also expanded one declaration per process)
    alone_idx = list(range(8)) + list(range(n_base, len(hist)))
    with cf.ThreadPoolExecutor(max_workers=NCPU) as ex:
        alone = dict(zip(alone_idx, ex.map(lambda i: e1.expand_many([hist[i]])[0], alone_idx)))
    res.extra["history_replication"] = {"declarations": len(hist), "orders": ["forward", "reverse", "alone (%d)" % len(alone_idx)]}
    for i, t in enumerate(hist):
        variants = [fwd[i], rev[i]] + ([alone[i]] if i in alone else [])
        res.transitions += len(variants)
        if len(set(variants)) != 1:
            a, b = variants[0], next(v for v in variants if v != variants[0])
            res.violation({"kind": "expansion-depends-on-earlier-invocations", "declaration": t[:300]},
                          {"a": a[1][:800], "b": b[1][:800], "declaration_full": t,
                           "note": "the same declaration expands differently depending on which declarations the process expanded before"},
                          {"repro.rs": "// expansion depends on the derive's earlier invocations in the same process:\n// %s\nfn main() {}\n" % t.replace("\n", " ")})
            break
    res.extra["fresh_process_replication"] = {"processes": nproc, "declarations": len(rep_decls), "label": "sampling (supplementary, not the deciding technique)"}
    if len(set(outs)) != 1:
        a = outs[0].split(b"\n\x1e\n")
        for o in outs[1:]:
            b = o.split(b"\n\x1e\n")
            for i, (x, y) in enumerate(zip(a, b)):
                if x != y:
                    res.violation({"kind": "expansion-differs-between-processes", "declaration": rep_decls[i][:300]},
                                  {"a": x.decode(errors="replace")[:800], "b": y.decode(errors="replace")[:800]},
                                  {"repro.rs": "// two fresh processes expanded this declaration differently:\n// %s\nfn main() {}\n" % rep_decls[i].replace("\n", " ")})
                    break
            else:
                continue
            break
    hits = audit_sources()
    res.extra["uncontrolled_sources"] = hits
    if hits:
        log("WARNING: possible per-process state outside the seam (not explored by the scheduler):")
        for h in hits[:10]:
            log("   ", h)
        res.assumptions.append("sources listed under uncontrolled_sources are NOT covered by the exhaustive exploration")
    res.rule = ("states = declarations; transitions = executions of the real parser+generator, one per complete assignment of iteration orders to the "
                "choice points met (n! alternatives per map with n entries); non-trivial = declarations with at least one choice point with > 1 alternative")
    for lab, t in decls[:2] + decls[len(decls) // 2:len(decls) // 2 + 2] + decls[-2:]:
        res.sample({"declaration": lab, "text": re.sub(r"\s+", " ", t)[:300]})
    res.bounds = {"max_variants": maxn if tier == "quick" else 8, "max_alternatives_per_point": "n!"}
    return res.finish()


# ------------------------------------------------------------------------------------------ C18

def admissible_reprs(vals):
    return [r for r in ALL_REPRS if all(rmin(r) <= v <= rmax(r) for v in vals)]


def c18(tier):
    res = Result("C18", tier, "exhaustive enumeration of all n! declaration orders x all admissible reprs of every value set (size <= 3/4 from a 6-window): "
                               "transcripts of every item must be identical within a value set and equal the reference model")
    maxn = 3 if tier == "quick" else 4
    windows = [[-3, -2, -1, 0, 1, 2], [0, 1, 2, 3, 4, 5]] if tier == "thorough" else [[-2, -1, 0, 1, 2]]
    cfgs = [("t", catalogue.full_config(False, {"as_str": "table", "from_str": "table", "FromStr": "table", "iter": "table"})),
            ("m", catalogue.full_config(False, {"as_str": "match", "from_str": "match", "FromStr": "match", "iter": "next_and_back"})),
            ("a", catalogue.full_config(False, {}))]     # auto: range mode on gapless sets, table_inline / next_and_back otherwise
    subs = []
    sets = []
    for w in windows:
        for n in range(1, maxn + 1):
            for comb in itertools.combinations(w, n):
                if list(comb) in sets:
                    continue
                sets.append(list(comb))
    # value sets touching the limits of the narrow reprs (where +1/-1 wraps in the smallest admissible repr but not in a wider one)
    limits = [-128, 127, 255, -32768, 32767, 65535, -(1 << 31), (1 << 31) - 1, (1 << 32) - 1] + ([enums.I64_MIN, enums.I64_MAX] if tier == "thorough" else [enums.I64_MAX])
    limit_sets = []
    for L in limits:
        below = L - 1 if L > 0 else L + 1
        for comb in ([0, L], sorted([below, L]), sorted([0, 5, L]), sorted([0, below, L])):
            comb = sorted(set(comb))
            if comb not in sets and all(enums.I64_MIN <= v <= enums.I64_MAX for v in comb):
                sets.append(comb)
                limit_sets.append(comb)
    # The argument alphabet of a value set is clipped to what EVERY admissible repr can represent, so the values just beyond a
    # narrow repr's limit are never asked. Each limit set is therefore explored a second time among the 64-bit-and-wider reprs only
    # (seed C18-r6m1: pointer-sized reprs treated as 32 bit wide), with the unclipped neighbourhood as arguments.
    WIDE = ("i64", "u64", "i128", "u128", "isize", "usize")
    jobs = [(si, comb, None) for si, comb in enumerate(sets)]
    for comb in limit_sets:
        if any(r not in WIDE for r in admissible_reprs(comb)) and any(r in WIDE for r in admissible_reprs(comb)):
            jobs.append((len(jobs), comb, WIDE))
    names_for = {}
    for si, comb, only in jobs:
        # names are attached to VALUES (the discriminant -> name map is what must be preserved)
        nm = {}
        for j, v in enumerate(sorted(comb)):
            nm[v] = ("N%d" % j, enums.AWKWARD[(si + j) % len(enums.AWKWARD)] if (si + j) % 3 == 0 else None)
        reprs = [r for r in admissible_reprs(comb) if only is None or r in only]
        # one argument alphabet for the whole value set: neighbours of members representable in EVERY admissible repr
        lo_all, hi_all = max(rmin(r) for r in reprs), min(rmax(r) for r in reprs)
        args = sorted(set(x for v in comb for x in range(v - 2, v + 3) if lo_all <= x <= hi_all))
        perms = list(itertools.permutations(comb))
        for pi, perm in enumerate(perms):
            for r in reprs:
                if tier == "quick" and len(perms) > 2 and pi not in (0, len(perms) - 1) and r not in ("i8", "u8", "i64", "u128", "isize", "i16"):
                    continue   # quick: all orders on 6 reprs, first/last order on the others
                variants = [Variant(nm[v][0], lit=str(v), rename=nm[v][1]) for v in perm]
                d = EnumDecl(r, variants, tag={"family": "S", "set": list(comb), "order": list(perm)})
                a = args
                for cs, cfg in cfgs:
                    subs.append(Subj("v%04d_p%02d_%s_%s" % (si, pi, r, cs), d, cfg, args=a, sweep_full=False,
                                     bounds=dict(x1_depth=2, x2_extra=2, x2_cap=6, range_x1_depth=1, range_x2_extra=1, consumers=False)))
    # large value sets (index arithmetic beyond 8 bits) under every repr that can hold them, one scrambled order + ascending
    # (and sets that the 8-bit reprs can still hold: table indices beyond the positive half of i8 - seed C18-r6m2)
    big_sets = [list(range(0, 300)), [x for x in range(0, 303) if x not in (100, 101, 200)], list(range(-100, 100)), list(range(0, 256)),
                [x for x in range(-128, 128) if x not in (-3, 70)]]
    if tier == "thorough":
        big_sets.append(list(range(-150, 150)))
    for bi, vals in enumerate(big_sets):
        quick_reprs = ("i8", "u8", "i16", "u16", "i32", "u64")
        reprs = [r for r in admissible_reprs(vals) if tier == "thorough" or r in quick_reprs]
        lo_all, hi_all = max(rmin(r) for r in reprs), min(rmax(r) for r in reprs)
        args = sorted(set(x for v in (vals[0], vals[-1], vals[len(vals) // 2]) for x in range(v - 2, v + 3) if lo_all <= x <= hi_all))
        for oi, order in enumerate((vals, vals[len(vals) // 2:] + vals[:len(vals) // 2][::-1])):
            for r in reprs:
                variants = [Variant("N%d" % (v - vals[0]), lit=str(v), rename=enums.AWKWARD[v % len(enums.AWKWARD)] if v % 7 == 3 else None) for v in order]
                d = EnumDecl(r, variants, tag={"family": "S-big", "n": len(vals)})
                for cs, cfg in cfgs:
                    subs.append(Subj("w%04d_p%02d_%s_%s" % (bi, oi, r, cs), d, cfg, args=args, sweep_full=False, weight=80,
                                     bounds=dict(x1_depth=1, x2_extra=0, x2_cap=2, range_x1_depth=1, range_x2_extra=0, range_pair_step=997, consumers=False)))
    merged = explore(res, "%s/c18" % tier, subs)

    def group(s):
        # unsigned reprs cannot see negative arguments: the try_from transcripts are compared among subjects with the same argument set
        return s.sid.split("_")[0]
    # items whose transcript includes the argument list are compared within (value set, same clipped args)
    compare_transcripts(res, merged, subs, group, "order-or-repr-dependent-behaviour",
                        items=None)
    res.rule = ("states = explorer states over every (value set, declaration order, repr, configuration) subject; all subjects of one value set must "
                "produce identical per-item transcripts (discriminants as i128, names, iterator observations) and match the reference model")
    res.family = {"value_sets": len(sets), "subjects": len(subs)}
    res.bounds = {"set_size": maxn, "orders": "all n!", "reprs": "all admissible of the 12"}
    for s in subs[:2] + subs[len(subs) // 2:len(subs) // 2 + 2]:
        res.sample(s.describe())
    return res.finish()


CHECKS = {"C17": c17, "C18": c18}


# ------------------------------------------------------------------------------------------ C16

TYPE_NAMES = ["Option", "Result", "Iterator", "DoubleEndedIterator", "ExactSizeIterator", "FusedIterator", "IntoIterator", "From", "Into",
              "TryFrom", "FromStr", "Copy", "Clone", "Sized", "FnMut", "Debug", "Display", "Formatter", "MaybeUninit", "RangeInclusive", "Map",
              "Copied", "Iter", "IntoIter", "core", "std", "alloc", "Ordering", "PartialEq", "Eq", "Default", "Send", "Sync", "Fn", "FnOnce", "Drop", "AsRef", "ToString",
              "String", "Vec", "Box", "Rev", "Zip", "Range", "Slice", "Error", "Write", "Arguments", "Infallible", "Marker", "Mem", "Ops", "Convert"]
# Primitive type names (str, usize, u8, ...) are deliberately NOT shadowed: they are language built-ins, not prelude or core *items*;
# the property speaks of items named like prelude/core items (a first version of this menu shadowed them and was corrected).
_UNUSED = []
VALUE_NAMES = ["Some", "None", "Ok", "Err", "transmute", "drop", "from", "into", "try_from", "from_str", "next", "iter", "len", "write_str"]
MACRO_NAMES = ["panic", "matches", "write", "unreachable", "vec", "format", "assert", "debug_assert", "todo", "unimplemented", "assert_eq",
               "concat", "stringify", "line", "cfg", "compile_error", "include", "env", "format_args"]
PRIMS = set()


def shadow_item(name, guise):
    if guise == "struct":
        if name in PRIMS:
            return "#[allow(non_camel_case_types)] pub struct %s;" % name
        return "#[allow(non_camel_case_types)] pub struct %s;" % name
    if guise == "modfn":
        if name in VALUE_NAMES:
            return "#[allow(non_snake_case)] pub fn %s() {}" % name
        return "#[allow(non_snake_case)] pub mod %s {}" % name
    if guise == "macro":
        return "#[allow(unused_macros)] macro_rules! %s { ($($t:tt)*) => { compile_error!(\"the derive used a macro shadowed by the user\") } }" % name
    raise ValueError(guise)


def shadow_scopes(tier):
    """list of (label, inner_attrs, scope_items, nostd)"""
    out = []
    all_sets = {
        "all-struct": [shadow_item(n, "struct") for n in TYPE_NAMES + VALUE_NAMES],
        "all-modfn": [shadow_item(n, "modfn") for n in TYPE_NAMES + VALUE_NAMES],
        "all-macro": [shadow_item(n, "macro") for n in MACRO_NAMES],
    }
    for prelude in (False, True):
        for nostd in (False, True):
            base = "%s%s" % ("no_implicit_prelude+" if prelude else "", "no_std" if nostd else "std")
            inner = "#![no_implicit_prelude]" if prelude else ""
            out.append((base + "/plain", inner, "", nostd))
            for lab, items in all_sets.items():
                out.append((base + "/" + lab, inner, "\n".join("    " + i for i in items), nostd))
    singles = []
    if tier == "thorough":
        for n in TYPE_NAMES + VALUE_NAMES:
            for g in ("struct", "modfn"):
                singles.append(("single/%s/%s" % (g, n), "", "    " + shadow_item(n, g), False))
        for n in MACRO_NAMES:
            singles.append(("single/macro/%s" % n, "", "    " + shadow_item(n, "macro"), False))
    return out, singles


def c16(tier):
    import e2
    import e3
    from props_cfg import cover, klass, run_space
    res = Result("C16", tier, "finite menu of hostile program scopes (no_std, no_implicit_prelude, every prelude/core name shadowed singly and all at once in three guises) x "
                               "configuration class cover: compiled and run with the real derive, transcripts compared with the plain scope")
    # the class cover is computed on the thinned space in both tiers (C09 thorough explores the full space)
    spaces = run_space(res, "quick", soft=True)
    covers = {k: sorted(cover(sp, ("closure",))) for k, sp in spaces.items()}
    # whatever E1 could not split is covered by a fixed configuration list (every feature alone in every mode + the full sets)
    for k in list(covers):
        g = (k == "g")
        extra = [c for c in catalogue.small_configs(1, g, explicit_auto=True) if c.feats]
        extra += [Config([("iter", {"mode": m}), "range"]) for m in (["range"] if g else []) + ["next_and_back", "table"]]
        covers[k] = covers[k] + ["CFG:%d" % i for i in range(len(extra))]
        covers[k + ":extra"] = extra
    enums_ = [make_decl("i8", [4, 6, 3, 5], salt=2), make_decl("i8", [-5, 3, -10, -4], salt=5),
              make_decl("u8", [1, 2, 3], salt=1), make_decl("u16", [7, 300, 1, 8], salt=4)]
    # pointer-sized reprs (seed C16-r6m2: a relative `core::` path in the usize/isize arm only) and many runs (seed C16-r6m1: a
    # search over the run table, generated for > 8 runs only, that forgot to import Ok/Err)
    enums_ += [make_decl("usize", [7, 3, 4, 100], salt=1), make_decl("isize", [-7, 3, 4, -100], salt=2),
               make_decl("i8", [x for x in range(-30, 30) if x % 3 != 0][::-1], salt=4)]
    if tier == "thorough":
        enums_ += [make_decl("u64", [9, 1, 2], salt=3), make_decl("i64", [enums.I64_MIN, -1, 0, enums.I64_MAX], salt=7),
                   make_decl("u16", [0, 1, 2, 700, 701, 65535], salt=9), make_decl("usize", [7], salt=1)]
    # the enum's own name next to the generics / local names of the generated code
    for nm in ("B", "F", "Item", "T"):
        dd = make_decl("i8", [4, 6, 3, 5] if nm in ("B", "Item") else [-5, 3, -10, -4], salt=3)
        dd.name = nm
        enums_.append(dd)
    scopes, singles = shadow_scopes(tier)
    bounds = dict(x1_depth=1, x2_extra=1, x2_cap=5, range_x1_depth=1, range_x2_extra=0, consumers=False)
    subs = []
    n_sibling = 0
    nostd_mods = []     # (sid, module text)
    nostd_cases = []
    bounds_small = bounds
    for ei, d in enumerate(enums_):
        # the iterator histories are C06-C08's subject; here every item only has to be exercised in every scope
        bounds = bounds_small if len(d.variants) <= 16 else dict(x1_depth=1, x2_extra=0, x2_cap=2, range_x1_depth=1, range_x2_extra=0, range_pair_step=41, consumers=False)
        cfgs = [covers[klass(d) + ":extra"][int(t[4:])] if t.startswith("CFG:") else e1.cfg_from_text(t, zz=False) for t in covers[klass(d)]]
        seen_cfg = set()
        cfgs = [c for c in cfgs if not (c.key() in seen_cfg or seen_cfg.add(c.key()))]
        if d.name != "E" or (tier == "quick" and ei >= 2):
            # secondary enums (other reprs, unusual enum names): the full sets in three mode assignments + table_inline, every scope
            cfgs = [catalogue.full_config(d.gapless, m) for m in
                    ({}, {"as_str": "table", "from_str": "table", "FromStr": "table", "iter": "table"},
                     {"as_str": "match", "from_str": "match", "FromStr": "match", "iter": "next_and_back"})]
            cfgs.append(Config([("iter", {"mode": "table_inline"}), "names", "Debug", "TryFrom", "FromStr", "as_str"]))
        for ci, cfg in enumerate(cfgs):
            for si, (lab, inner, items, nostd) in enumerate(scopes):
                sid = "e%d_c%03d_s%02d" % (ei, ci, si)
                if nostd:
                    mod = "pub mod %s {\n%s\n}" % (sid, e3.module_m_source(d, cfg, inner_attrs=inner, scope_items=items))
                    nostd_cases.append((sid, d, cfg, lab, mod, bounds))
                else:
                    subs.append(Subj(sid, d, cfg, bounds=bounds, sweep_full=False, inner_attrs=inner, scope_items=items))
            # sibling derives: two more enums with the same configuration in the same module (whatever the derive places next to the
            # enum - structs, impls, a module-level `use` or const - must not collide with what it places next to another enum)
            if not any(k in ("name", "struct_name") for _f, ps in cfg.feats for k in ps):
                import copy
                sibs = []
                for k in (1, 2):
                    sd = copy.deepcopy(d)
                    sd.name = "Sib%d" % k
                    if k == 2 and all(v.lit is not None for v in sd.variants):
                        sd.variants.reverse()
                    sibs.append(sd.render(cfg.attr_lines(), indent="    "))
                n_sibling += 1
                subs.append(Subj("e%d_c%03d_s%02d" % (ei, ci, len(scopes)), d, cfg, bounds=bounds, sweep_full=False, scope_items="\n".join(sibs)))
        full_cfgs = [catalogue.full_config(d.gapless, m) for m in
                     ({}, {"as_str": "table", "from_str": "table", "FromStr": "table", "iter": "table"},
                      {"as_str": "match", "from_str": "match", "FromStr": "match", "iter": "next_and_back"})]
        for ci, cfg in enumerate(full_cfgs):
            for si, (lab, inner, items, nostd) in enumerate(singles):
                subs.append(Subj("e%d_f%d_x%03d" % (ei, ci, si), d, cfg, bounds=bounds, sweep_full=False, inner_attrs=inner, scope_items=items))
            # the plain reference for the singles
            subs.append(Subj("e%d_f%d_plain" % (ei, ci), d, cfg, bounds=bounds, sweep_full=False))
    # no_std: judge every module on its own first (a failing one is a violation, and is left out of the shared rlib)
    verdicts = e2.compile_many([{"src": "#![no_std]\n#![allow(warnings)]\n" + c[4] + "\n"} for c in nostd_cases])
    good = []
    for c, v in zip(nostd_cases, verdicts):
        res.states += 1
        res.transitions += 1
        if v.ok:
            good.append(c)
        else:
            res.violation({"kind": "does-not-compile-in-scope", "scope": c[3], "config": c[2].describe(), "errors": v.errors[:2]},
                          {"rustc": v.to_json(), "module": c[4][:3000]}, {"repro.rs": "#![no_std]\n" + c[4] + "\n"})
    lib_src = "#![no_std]\n#![allow(warnings)]\n" + "\n".join(c[4] for c in good) + "\n"
    lib_toml = "[package]\nname = \"c16_nostd_%s\"\nversion = \"0.0.0\"\nedition = \"2021\"\n[lib]\npath = \"lib.rs\"\n[dependencies]\nenum-tools = { path = \"%s\" }\n" % (tier, REPO)
    for (sid, d, cfg, lab, mod, nb) in good:
        subs.append(Subj(sid, d, cfg, bounds=nb, sweep_full=False, m_external="::c16_nostd_%s::%s" % (tier, sid)))
    merged = explore(res, "%s/c16" % tier, subs, extra_crates={"c16_nostd_%s" % tier: (lib_toml, lib_src)},
                     extra_deps="c16_nostd_%s = { path = \"../c16_nostd_%s\" }" % (tier, tier))

    def group(s):
        p = s.sid.split("_")
        return p[0] + "_" + p[1]     # (enum, configuration)
    compare_transcripts(res, merged, subs, group, "scope-dependent-behaviour")
    # Informational only (never part of the verdict, see DESIGN.md §12.11): scope dependences that lie OUTSIDE the property as stated —
    # (a) lower-case user constants named like local bindings/parameters of the generated code, (b) a user trait whose by-value method is
    # named like an inherent &self method of a core type and is implemented for that type.
    probes = {
        "user-const-named-like-generated-local": "#![allow(warnings)]\nmod m { use enum_tools::EnumTools; pub const value: u8 = 0; pub const r: u8 = 0; pub const s: u8 = 0;\n"
                                                 "#[derive(Clone, Copy, EnumTools)] #[enum_tools(try_from, from_str, next)] #[repr(i8)] pub enum E { A = 1, B = 5 } }\n",
        "user-trait-method-hijacks-inherent-method": "#![allow(warnings)]\nmod m { use enum_tools::EnumTools; pub trait H { fn contains(self, _x: &i8) -> bool; }\n"
                                                     "impl H for ::core::ops::RangeInclusive<i8> { fn contains(self, _x: &i8) -> bool { false } }\n"
                                                     "#[derive(Clone, Copy, EnumTools)] #[enum_tools(try_from)] #[repr(i8)] pub enum E { A = 1, B = 5 } }\n"
                                                     "pub fn probe() -> bool { m::E::try_from(5).is_some() }\n",
    }
    obs = {}
    for k, src in probes.items():
        v = e2.compile_one(src)
        obs[k] = "compiles" if v.ok else "does not compile: %s" % v.errors[:1]
    res.extra["observations_outside_property"] = obs
    res.extra["scopes"] = [s[0] for s in scopes] + ["%d single-name shadows" % len(singles), "std/sibling-derives (%d subjects)" % n_sibling]
    res.extra["cover_sizes"] = {k: len(v) for k, v in covers.items() if not k.endswith(":extra")}
    res.rule = ("states = (scope, configuration, enum) subjects' explorer states + no_std modules judged by rustc; every subject must compile and give the "
                "same per-item transcripts as the same configuration in the plain scope; non-trivial as in C01-C08")
    res.bounds = {"shadowed_names": len(TYPE_NAMES) + len(VALUE_NAMES), "macro_names": len(MACRO_NAMES), "guises": 3}
    for s in subs[:1] + subs[len(subs) // 2:len(subs) // 2 + 1]:
        res.sample(s.describe())
    res.sample({"scope_menu": [s[0] for s in scopes][:8]})
    return res.finish()


CHECKS["C16"] = c16
