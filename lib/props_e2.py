"""C11–C14: bounded-exhaustive grammars of declarations / attributes judged by the real toolchain."""
import itertools

import catalogue
import e2
import enums
from common import Result, log
from e3 import Config, Subj
from e3check import explore
from enums import ALL_REPRS, REPRS, EnumDecl, Variant, hi, lo, rmax, rmin, rust_str

# ------------------------------------------------------------------------------------------ C11


def vset(r):
    vals = [lo(r), lo(r) + 1, -2, -1, 0, 1, 2, hi(r) - 1, hi(r)]
    out = []
    for v in vals:
        if rmin(r) <= v <= rmax(r) and v not in out:
            out.append(v)
    return out


def spell(value, r, base, sep, suffix, neg_space, upper=False):
    m = abs(value)
    digits = {10: "%d", 16: "%x", 8: "%o", 2: "{0:b}"}[base]
    digits = digits.format(m) if base == 2 else digits % m
    if upper:
        digits = digits.upper()
    prefix = {10: "", 16: "0x", 8: "0o", 2: "0b"}[base]
    if sep == "inner" and len(digits) >= 2:
        digits = digits[0] + "_" + digits[1:]
    elif sep == "double" and len(digits) >= 2:
        digits = digits[:-1] + "__" + digits[-1]
    elif sep == "afterprefix" and prefix:
        digits = "_" + digits
    elif sep == "trailing":
        digits = digits + "_"
    elif sep == "every":
        digits = "_".join(digits)
    suf = {"": "", "R": r, "_R": "_" + r}[suffix]
    if suffix == "R" and digits.endswith("_"):
        pass
    lit = prefix + digits + suf
    if value < 0:
        lit = ("- " if neg_space else "-") + lit
    return lit


def spelling_styles():
    out = []
    for base in (10, 16, 8, 2):
        for sep in ("none", "inner", "double", "afterprefix", "trailing", "every"):
            if sep == "afterprefix" and base == 10:
                continue
            for suffix in ("", "R", "_R"):
                for upper in ((False, True) if base == 16 else (False,)):
                    out.append((base, sep, suffix, upper))
    return out


SIGNED_ONLY = ("i8", "i32", "i64", "isize")


def c11_decls(tier):
    out = []
    # (a) mix patterns of implicit / explicit discriminants
    full_reprs = ["i8", "u8", "i64", "u128"] if tier == "quick" else ALL_REPRS
    for r in ALL_REPRS:
        vs = vset(r)
        nmax = (3 if r in full_reprs else 2) if tier == "quick" else (4 if r in ("i8", "u8", "i64", "usize") else 3)
        choices = [None] + vs
        salt = 0
        for n in range(1, nmax + 1):
            for combo in itertools.product(choices, repeat=n):
                variants = [Variant("V%d" % i, lit=None if c is None else str(c)) for i, c in enumerate(combo)]
                d = EnumDecl(r, variants, tag={"family": "C11a-mix", "pattern": ["_" if c is None else c for c in combo]})
                if d.in_domain:
                    out.append(d)
                salt += 1
    # (b) spellings: one enum per (repr, style) holding every value of V(R) in that style
    styles = spelling_styles()
    for r in ALL_REPRS:
        for si, (base, sep, suffix, upper) in enumerate(styles):
            if tier == "quick" and r not in ("i8", "u8", "i64", "u64", "i128", "usize") and (si % 3) != 0:
                continue
            for neg_space in (False, True):
                if neg_space and not REPRS[r][1]:
                    continue
                vs = vset(r)
                variants = []
                for i, v in enumerate(vs):
                    variants.append(Variant("V%d" % i, lit=spell(v, r, base, sep, suffix, neg_space, upper)))
                d = EnumDecl(r, variants, tag={"family": "C11b-spelling", "style": [base, sep, suffix, upper, neg_space]})
                assert d.in_domain, (r, [v.lit for v in variants])
                out.append(d)
    # negated zero is an (optionally negated) integer literal too
    for r in SIGNED_ONLY:
        for z in ("-0", "- 0", "-0x0", "-0_%s" % r, "-00"):
            out.append(EnumDecl(r, [Variant("V0", lit=z), Variant("V1"), Variant("V2", lit="-2")], tag={"family": "C11b-neg-zero", "lit": z}))
    # (c) sizes with implicit discriminants
    sizes = [1, 2, 255, 256, 257] + ([65534] if tier == "thorough" else [])
    for r in ("u16", "i32", "usize"):
        for n in sizes:
            variants = [Variant("V%d" % i) for i in range(n)]
            out.append(EnumDecl(r, variants, tag={"family": "C11c-size", "n": n}))
    # implicit after an explicit start, sizes crossing 255/256 with a negative start
    for r in ("i16", "i64"):
        variants = [Variant("V0", lit="-200")] + [Variant("V%d" % i) for i in range(1, 300)]
        out.append(EnumDecl(r, variants, tag={"family": "C11c-size", "n": 300, "start": -200}))
    # (f) the whole 8-bit types, and 255 values with an early / a late hole, under every feature in every mode (table offsets and
    #     indices beyond the positive half of i8: seed C11-r6m2)
    for r in ("i8", "u8"):
        for d in enums.family_L(r, renames=False):
            d.tag = {"family": "C11f-8bit-large", "kind": d.tag.get("kind")}
            d.full_config = True
            out.append(d)
    # (d) foreign attributes and doc comments on enum and variants
    foreign_enum = [
        ("pre", "/// a doc comment"), ("pre", "#[doc = \"doc attr\"]"), ("pre", "#[allow(dead_code)]"),
        ("pre", "#[cfg(all())]"), ("pre", "#[cfg_attr(all(), allow(unused))]"), ("pre", "#[deprecated]"),
        ("pre", "#[rustfmt::skip]"), ("pre", "#[non_exhaustive]"), ("pre", "#[must_use]"),
        ("mid", "/// doc between derive and enum_tools"), ("mid", "#[allow(clippy::all)]"), ("mid", "#[cfg_attr(any(), repr(u8))]"),
        ("post", "/// doc after repr"), ("post", "#[allow(non_camel_case_types)]"), ("post", "#[cfg_attr(all(), allow(unused))]"),
        ("post", "#[doc(hidden)]"),
    ]
    foreign_var = ["/// variant doc", "#[doc = \"x\"]", "#[allow(dead_code)]", "#[cfg(all())]", "#[cfg_attr(all(), allow(unused))]",
                   "#[deprecated]", "/** block doc */", "#[allow(dead_code, unused)]", "#[deprecated(since = \"1.0\", note = \"x\")]",
                   "#[cfg_attr(all(), allow(dead_code, unused))]", "#[doc(alias = \"x\", alias = \"y\")]", "#[cfg(all(all(), not(any())))]",
                   "#[allow(clippy::all, clippy::pedantic)]", "#[cfg_attr(all(), doc = \"a\", allow(unused))]", "#[doc(hidden)]",
                   "#[deprecated = \"x\"]", "#[allow()]", "#[rustfmt::skip]"]
    foreign_enum += [("pre", "#[allow(dead_code, unused)]"), ("mid", "#[deprecated(since = \"1.0\", note = \"x\")]"),
                     ("post", "#[cfg_attr(all(), allow(dead_code, unused))]"), ("mid", "#[doc(alias = \"x\", alias = \"y\")]"),
                     ("post", "#[allow()]"), ("mid", "#[cfg_attr(all(), doc = \"a\", allow(unused))]")]
    for r in ("i8", "u32"):
        base_vals = [("V0", "2"), ("V1", None), ("V2", "7")] if r == "u32" else [("V0", "-2"), ("V1", None), ("V2", "5")]
        for pos, a in foreign_enum:
            d = EnumDecl(r, [Variant(i, lit=l) for i, l in base_vals], tag={"family": "C11d-foreign-enum", "attr": a, "pos": pos},
                         **({"attrs_pre": [a]} if pos == "pre" else {"enum_attrs": [a]} if pos == "mid" else {"attrs_post": [a]}))
            out.append(d)
        for a in foreign_var:
            for which in range(3):
                vs = [Variant(i, lit=l, attrs=[a] if k == which else []) for k, (i, l) in enumerate(base_vals)]
                out.append(EnumDecl(r, vs, tag={"family": "C11d-foreign-variant", "attr": a, "which": which}))
        # cfg'd-out variant, repr through cfg_attr, a second derive with its own helper attribute, rename through cfg_attr
        vs = [Variant("V0", lit="1"), Variant("Gone", lit="2", attrs=["#[cfg(any())]"]), Variant("V2", lit="3")]
        d = EnumDecl(r, [vs[0], vs[2]], tag={"family": "C11d-cfg-variant"})
        d.variants_render = vs
        out.append(d)
        d = EnumDecl(r, [Variant(i, lit=l) for i, l in base_vals], tag={"family": "C11d-cfg_attr-repr"},
                     repr_attr="#[cfg_attr(all(), repr(%s))]" % r)
        out.append(d)
        d = EnumDecl(r, [Variant("V0", lit=base_vals[0][1], attrs=["#[default]"]), Variant("V1"), Variant("V2", lit=base_vals[2][1])],
                     tag={"family": "C11d-second-derive"})
        d.extra_derives = "Clone, Copy, Default"
        out.append(d)
        v0 = Variant("V0", lit=base_vals[0][1], rename="renamed")
        v0.rename_form = "#[cfg_attr(all(), enum_tools(rename = %s))]"
        d = EnumDecl(r, [v0, Variant("V1"), Variant("V2", lit=base_vals[2][1])], tag={"family": "C11d-cfg_attr-rename"})
        out.append(d)
    # (e) the enum's own NAME: single letters that generated generics use, names of prelude/core items, lower-case names
    for nm in [c for c in "ACDEGHJKLMOPQSUVWXYZ"] + ["Acc", "Fn", "Pred", "Idx", "Rhs", "Out", "St"] + ["B", "F", "T", "I", "R", "N", "Item", "Iter", "Names", "IntoIter", "Option", "Some", "None", "Ok", "Err", "Result", "Iterator",
               "From", "Into", "TryFrom", "FromStr", "Copy", "Sized", "Debug", "Display", "FnMut", "Map", "Copied", "RangeInclusive",
               "MaybeUninit", "Formatter", "E0", "value", "r", "x", "s", "it", "core", "std", "Self_", "r#type"]:
        for r, vals in (("i8", ["-2", None, None]), ("u16", ["1", "2", "9"])):
            d = EnumDecl(r, [Variant("A", lit=vals[0]), Variant("Bv", lit=vals[1]), Variant("C", lit=vals[2])], name=nm,
                         tag={"family": "C11e-enum-name", "name": nm})
            d.full_config = True
            out.append(d)
    return out


MACRO_FORMS = [
    # (label, macro definition + invocation producing `pub enum E` with variants A, B, C (values 1, 2, 3 or 1, 2, 9) in module scope)
    ("repr-fragment", "macro_rules! mk { ($r:ident) => { #[derive(Clone, Copy, EnumTools)] #[enum_tools(%(cfg)s)] #[repr($r)] pub enum E { A = 1, B = 2, C = %(c)s } } } mk!(%(repr)s);"),
    ("name-fragment", "macro_rules! mk { ($n:ident) => { #[derive(Clone, Copy, EnumTools)] #[enum_tools(%(cfg)s)] #[repr(%(repr)s)] pub enum $n { A = 1, B = 2, C = %(c)s } } } mk!(E);"),
    ("variants-fragment", "macro_rules! mk { ($($v:ident),*) => { #[derive(Clone, Copy, EnumTools)] #[enum_tools(%(cfg)s)] #[repr(%(repr)s)] pub enum E { $($v),* } } } mk!(A, B, C);"),
    ("item-passthrough", "macro_rules! pass { ($i:item) => { $i } } pass! { #[derive(Clone, Copy, EnumTools)] #[enum_tools(%(cfg)s)] #[repr(%(repr)s)] pub enum E { A = 1, B = 2, C = %(c)s } }"),
    ("tt-passthrough", "macro_rules! pass { ($($t:tt)*) => { $($t)* } } pass! { #[derive(Clone, Copy, EnumTools)] #[enum_tools(%(cfg)s)] #[repr(%(repr)s)] pub enum E { A = 1, B = 2, C = %(c)s } }"),
    ("attrs-fragment", "macro_rules! mk { ($(#[$m:meta])* $v:vis enum $n:ident) => { $(#[$m])* $v enum $n { A = 1, B = 2, C = %(c)s } } } mk!(#[derive(Clone, Copy, EnumTools)] #[enum_tools(%(cfg)s)] #[repr(%(repr)s)] pub enum E);"),
    ("all-fragments", "macro_rules! mk { ($n:ident : $r:ident { $($v:ident = $d:tt),* }) => { #[derive(Clone, Copy, EnumTools)] #[enum_tools(%(cfg)s)] #[repr($r)] pub enum $n { $($v = $d),* } } } mk!(E : %(repr)s { A = 1, B = 2, C = %(c)s });"),
    ("nested-macro", "macro_rules! inner { ($r:ident, $n:ident) => { #[derive(Clone, Copy, EnumTools)] #[enum_tools(%(cfg)s)] #[repr($r)] pub enum $n { A = 1, B = 2, C = %(c)s } } } macro_rules! outer { ($r:ident) => { inner!($r, E); } } outer!(%(repr)s);"),
    ("rename-fragment", "macro_rules! mk { ($s:literal) => { #[derive(Clone, Copy, EnumTools)] #[enum_tools(%(cfg)s)] #[repr(%(repr)s)] pub enum E { #[enum_tools(rename = $s)] A = 1, B = 2, C = %(c)s } } } mk!(\"A\");"),
]


def macro_generated(res, tier):
    """Declarations produced by the user's macro_rules! macros (identifiers, repr, variants and attributes arriving through macro
    fragments carry other hygiene contexts than tokens written in place; seed T1-r7m1: `self` emitted with the span of the repr
    token). One program: every form x shape x mode assignment in its own module, a few run-time assertions each."""
    mods, calls = [], []
    k = 0
    for lab, form in MACRO_FORMS:
        for repr_, c in (("i8", "3"), ("u64", "9")):
            if lab == "variants-fragment" and c == "9":
                continue
            for ms in ({}, {"as_str": "table", "from_str": "table", "FromStr": "table", "iter": "table"},
                       {"as_str": "match", "from_str": "match", "FromStr": "match", "iter": "next_and_back"}):
                cfg = catalogue.full_config(c == "3" or lab == "variants-fragment", ms)
                m = "m%d" % k
                k += 1
                body = form % {"cfg": cfg.attr_text(), "repr": repr_, "c": c}
                mods.append("mod %s { use enum_tools::EnumTools; %s }" % (m, body))
                last = 2 if lab == "variants-fragment" else int(c)
                first = 0 if lab == "variants-fragment" else 1
                calls.append("{ use %s::E; type R = %s; let v: Vec<R> = E::iter().map(|e| e as R).collect(); assert_eq!(v, vec![%d as R, %d as R, %d as R], \"%s\");"
                             " assert_eq!(E::A.as_str(), \"A\"); assert_eq!(format!(\"{}/{:?}\", E::C, E::B), \"C/B\"); assert!(matches!(E::from_str(\"C\"), Some(E::C))); assert!(E::from_str(\"D\").is_none());"
                             " assert!(matches!(E::B.next(), Some(E::C))); assert!(E::C.next().is_none()); assert!(matches!(E::B.next_back(), Some(E::A))); assert!(E::A.next_back().is_none());"
                             " assert!(matches!(E::try_from(%d as R), Some(E::C))); assert!(E::try_from(100 as R).is_none()); assert_eq!(E::MIN as R, %d as R); assert_eq!(E::MAX as R, %d as R);"
                             " assert_eq!(E::names().collect::<Vec<_>>(), vec![\"A\", \"B\", \"C\"]); assert_eq!(E::range(E::B, E::C).len(), 2); assert_eq!(\"B\".parse::<E>().map(|e| e as R), Ok(%d as R)); }"
                             % (m, repr_, first, first + 1, last, m, last, first, last, first + 1))
    src = "#![allow(warnings)]\n" + "\n".join(mods) + "\nfn main() {\n" + "\n".join("  " + x for x in calls) + "\n}\n"
    ok, verdict, rc, so, se = e2.run_program(src)
    res.states += len(mods)
    res.transitions += len(mods) * 18
    res.outcome("macro-generated-declarations", len(mods))
    if not ok:
        res.violation({"kind": "does-not-compile", "what": "declaration produced by a macro_rules! macro", "errors": [l for l in verdict.splitlines() if l.startswith("error")][:3]},
                      {"rustc": verdict[-2500:]}, {"repro.rs": src})
    elif rc != 0:
        res.violation({"kind": "wrong-result", "what": "declaration produced by a macro_rules! macro", "stderr": se[-400:]}, {}, {"repro.rs": src})
    else:
        res.validated += len(mods)


def size_limit_e1(res, tier):
    """The documented size limit at expansion level (quick: in-process; a 65534-variant enum takes ~6 s of rustc per
    configuration and is built for real in the thorough tier). E1 verdicts are candidates: a disagreement is confirmed
    with the real toolchain before it is reported."""
    import e1
    import e2
    for n, want in ((65533, True), (65534, True)):
        body = ", ".join("V%d" % i for i in range(n))
        for r in ("u16", "u32", "i64"):
            decl = "#[enum_tools(into, MIN, MAX)] #[repr(%s)] pub enum E { %s }" % (r, body)
            st, txt = e1.expand_many([decl])[0]
            res.states += 1
            res.transitions += 1
            res.outcome("e1-size-%d:%s" % (n, st))
            if (st == "OK") != want:
                src = "use enum_tools::EnumTools;\n#[derive(Clone, Copy, EnumTools)]\n%s\nfn main() {}\n" % decl
                v = e2.compile_one(src)
                res.validated += 1
                if v.ok != want:
                    res.violation({"kind": "does-not-compile", "case": "%d unit variants, repr %s" % (n, r), "errors": v.errors[:2]},
                                  {"e1": txt[:300], "rustc": v.to_json()}, {"repro.rs": src})
                else:
                    res.unconfirmed.append({"e1": st, "case": "%d variants" % n})


def c11(tier):
    res = Result("C11", tier, "bounded-exhaustive enumeration of in-domain declarations (implicit/explicit mixes, literal spellings, sizes, foreign "
                               "attributes) derived by the real macro; discriminants compared with the compiler's `v as repr` at run time")
    decls = c11_decls(tier)
    cfg = Config(["into", "try_from", "iter", "MIN", "MAX", "as_str", "next"])
    subs = []
    for i, d in enumerate(decls):
        big = len(d.variants) > 1000
        b = dict(x1_depth=1, x2_extra=1, x2_cap=5, consumers=False)
        if big:
            b = dict(x1_depth=1, x2_extra=0, x2_cap=1, consumers=False)
        if len(d.variants) > 64:
            b.update(range_x1_depth=1, range_x2_extra=0, range_pair_step=977)
        if getattr(d, "full_config", False):
            # every feature in every iterator mode: the enum's name meets every generated item
            for j, m in enumerate(({}, {"iter": "table", "as_str": "table", "from_str": "table", "FromStr": "table"},
                                   {"iter": "next_and_back", "as_str": "match", "from_str": "match", "FromStr": "match"})):
                subs.append(Subj("s%05d_%d" % (i, j), d, catalogue.full_config(d.gapless, m), bounds=b, sweep_full=False))
            subs.append(Subj("s%05d_3" % i, d, Config([("iter", {"mode": "table_inline"}), "names", "Debug", "TryFrom", "FromStr"]), bounds=b, sweep_full=False))
            continue
        s = Subj("s%05d" % i, d, cfg, bounds=b, weight=4000 if big else (40 if len(d.variants) > 64 else None), sweep_full=False)
        subs.append(s)
    explore(res, "%s/c11" % tier, subs, phases=["conv", "order", "iter", "str", "names", "range", "from_str"])
    size_limit_e1(res, tier)
    macro_generated(res, tier)
    fam = {}
    for d in decls:
        fam[d.tag["family"]] = fam.get(d.tag["family"], 0) + 1
    res.family = fam
    res.rule = ("states = (declaration, argument/variant/history) pairs explored at run time; every declaration is in the documented domain by "
                "construction (reference evaluator = Rust's discriminant rule, cross-checked against `v as repr` in every subject); "
                "non-trivial = try_from hits + run-boundary variants")
    for s in subs[:2] + subs[len(subs) // 3:len(subs) // 3 + 2] + subs[-3:]:
        res.sample(s.describe())
    res.bounds = {"mix_n": "<=3 (4 reprs) / <=2" if tier == "quick" else "<=4 (4 reprs) / <=3", "spelling_styles": len(spelling_styles())}
    return res.finish()


# ------------------------------------------------------------------------------------------ C12

C12_FEATURES = "into, try_from, iter, MIN, MAX, as_str, next"


# feature sets under which every out-of-domain declaration must be rejected: what the derive emits decides what rustc itself
# would still reject (e.g. `as_str` names every variant in a pattern), so "none" and sets that never name a single variant matter
C12_FEATURE_SETS = {"std": C12_FEATURES, "none": None, "into": "into",
                    "non-naming": "into, try_from, next, next_back, iter, range, MIN, MAX, TryFrom, Into",
                    "all": ", ".join(catalogue.FEATURES)}


def c12_case(decl_body, repr_line="#[repr(i8)]", pre="", derive="Clone, Copy, EnumTools", feats="std"):
    f = C12_FEATURE_SETS[feats]
    attr = "#[enum_tools(%s)]" % f if f is not None else ""
    return ("#![allow(warnings)]\nuse enum_tools::EnumTools;\n%s\n#[derive(%s)]\n%s\n%s\n%s\n"
            % (pre, derive, attr, repr_line, decl_body))


EXPRS = [
    ("const-path", "K"), ("assoc-const", "<u8>::MIN as R"), ("type-max", "R::MAX"), ("add", "1 + 1"), ("mul", "2 * 3"), ("shl", "1 << 2"),
    ("sub", "9 - 1"), ("cast", "1 as R"), ("paren", "(1)"), ("neg-paren", "-(1)"), ("double-neg", "--1"), ("double-neg-sp", "- -1"),
    ("not", "!0"), ("block", "{ 1 }"), ("byte", "b'a'"), ("char-cast", "'a' as R"), ("bool-cast", "true as R"), ("float", "1.0"),
    ("line", "line!() as R"), ("size_of", "::core::mem::size_of::<u8>() as R"), ("if", "if true { 1 } else { 2 }"),
    ("index", "[1][0]"), ("tuple-field", "(1,).0"), ("macro-expr", "mk!()"), ("macro-lit", "lit!()"), ("const-block", "const { 1 }"),
    ("neg-const", "-K"), ("unsafe-block", "unsafe { 1 }"), ("paren-neg", "(-1)"), ("ref-deref", "*&1"), ("attr-lit", "#[allow(unused)] 1"),
    ("pos-suffix-cast", "1u8 as R"), ("string", "\"1\""), ("bstr", "b\"1\""), ("tuple", "(1,)"), ("unit", "()"),
]
PRE = "type R = i8;\nconst K: R = 2;\nmacro_rules! mk { () => { 1 + 1 } }\nmacro_rules! lit { () => { 5 } }\n"


def c12_cases(tier):
    cases = []   # (label, src)
    ok_cases = []
    bases = {"gapless": "pub enum E { A = 10, B = 11, C = 12 }", "holes": "pub enum E { A = 10, B = 20, C = 30 }"}
    for k, b in bases.items():
        for r in ("i8", "u16", "i64"):
            ok_cases.append(("base-%s-%s" % (k, r), c12_case(b, "#[repr(%s)]" % r)))
    # item kinds
    for lab, body in [("unit-struct", "pub struct E;"), ("tuple-struct", "pub struct E(u8);"), ("named-struct", "pub struct E { x: u8 }"),
                      ("union", "pub union E { a: u8 }"), ("empty-enum", "pub enum E {}")]:
        for rl in ("#[repr(i8)]", "#[repr(C)]", "", "#[repr(transparent)]"):
            cases.append(("kind:%s:%s" % (lab, rl), c12_case(body, rl)))
            cases.append(("kind:%s:%s:none" % (lab, rl), c12_case(body, rl, feats="none")))
    # fields (4 variants so that the second and third are neither minimum nor maximum), under every feature set
    for fs in C12_FEATURE_SETS:
        ok_cases.append(("base-4-%s" % fs, c12_case("pub enum E { A, B, C, D }", feats=fs)))
        for field in ("(u8)", "()", "{}", "{ x: u8 }", "(u8, u8)"):
            for pos in range(4):
                for disc in (True, False):
                    vs = ["A", "B", "C", "D"]
                    vals = [10, 11, 12, 13]
                    parts = []
                    for i, v in enumerate(vs):
                        f = field if i == pos else ""
                        parts.append("%s%s%s" % (v, f, " = %d" % vals[i] if disc else ""))
                    cases.append(("field:%s@%d%s:%s" % (field, pos, ":disc" if disc else "", fs),
                                  c12_case("pub enum E { %s }" % ", ".join(parts), feats=fs)))
            # two empty-field variants in the middle
            cases.append(("field2:%s:%s" % (field, fs), c12_case("pub enum E { A, B%s, C%s, D }" % (field, field), feats=fs)))
    # discriminant expression grammar
    def expr_case(expr, pos, label):
        vals = ["40", "50", "60"]
        vals[pos] = expr
        body = "pub enum E { A = %s, B = %s, C = %s }" % tuple(vals)
        return (label, c12_case(body, "#[repr(i8)]", pre=PRE))
    depth1 = EXPRS
    for lab, e in depth1:
        for pos in range(3):
            cases.append(expr_case(e, pos, "expr:%s@%d" % (lab, pos)))
    for fs in ("none", "non-naming", "all"):
        for lab, e in depth1:
            body = "pub enum E { A = 40, B = %s, C = 60 }" % e
            cases.append(("expr:%s@1:%s" % (lab, fs), c12_case(body, "#[repr(i8)]", pre=PRE, feats=fs)))
    wrappers = [("neg", "-%s"), ("paren", "(%s)"), ("cast", "%s as R"), ("plus0", "%s + 0"), ("block", "{ %s }")]
    d2 = depth1 + [("lit", "1"), ("neglit", "-1")]
    for lab, e in d2:
        for wl, w in wrappers:
            if lab == "lit" and wl == "neg":
                continue   # `-1` is in the domain
            if tier == "quick" and wl in ("plus0", "block") and lab not in ("lit", "neglit", "paren", "const-path"):
                continue
            e2_ = w % e
            cases.append(expr_case(e2_, 1, "expr2:%s(%s)@1" % (wl, lab)))
            if tier == "thorough":
                cases.append(expr_case(e2_, 0, "expr2:%s(%s)@0" % (wl, lab)))
                cases.append(expr_case(e2_, 2, "expr2:%s(%s)@2" % (wl, lab)))
    # a macro_rules fragment of kind expr holding a non-literal, used as discriminant inside a generated enum
    cases.append(("expr:macro-fragment", "#![allow(warnings)]\nuse enum_tools::EnumTools;\nmacro_rules! mk { ($e:expr) => { #[derive(Clone, Copy, EnumTools)] #[enum_tools(%s)] #[repr(i8)] pub enum E { A = $e, B = 50 } } }\nmk!(1 + 1);\n" % C12_FEATURES))
    # values outside i64 — under every feature set: a discriminant the derive cannot read must not simply be dropped (with a feature
    # set that never names a single variant rustc itself would not notice a missing one)
    for fs in C12_FEATURE_SETS:
        for r in ("u64", "i128", "u128"):
            cases.append(("value:i64max+1:%s:%s" % (r, fs), c12_case("pub enum E { A = 1, B = 9223372036854775808 }", "#[repr(%s)]" % r, feats=fs)))
            cases.append(("value:i64max+1-middle:%s:%s" % (r, fs), c12_case("pub enum E { A = 1, B = 9223372036854775808, C = 3 }", "#[repr(%s)]" % r, feats=fs)))
            cases.append(("value:implicit-after-i64max:%s:%s" % (r, fs), c12_case("pub enum E { A = 9223372036854775807, B }", "#[repr(%s)]" % r, feats=fs)))
            cases.append(("value:implicit-after-i64max-3:%s:%s" % (r, fs), c12_case("pub enum E { Z = 0, A = 9223372036854775807, B, C }", "#[repr(%s)]" % r, feats=fs)))
            cases.append(("value:hex-i64max+1:%s:%s" % (r, fs), c12_case("pub enum E { A = 0x8000_0000_0000_0000 }", "#[repr(%s)]" % r, feats=fs)))
            cases.append(("value:u64max:%s:%s" % (r, fs), c12_case("pub enum E { Z = 0, A = 18446744073709551615 }", "#[repr(%s)]" % r, feats=fs)))
        cases.append(("value:i64min-1:i128:%s" % fs, c12_case("pub enum E { A = -9223372036854775809, B = 0 }", "#[repr(i128)]", feats=fs)))
        cases.append(("value:i64min-1-last:i128:%s" % fs, c12_case("pub enum E { B = 0, C = 1, A = -9223372036854775809 }", "#[repr(i128)]", feats=fs)))
        cases.append(("value:neg-big:i128:%s" % fs, c12_case("pub enum E { Z = 0, A = -170141183460469231731687303715884105728 }", "#[repr(i128)]", feats=fs)))
        cases.append(("value:big:u128:%s" % fs, c12_case("pub enum E { Z = 0, A = 340282366920938463463374607431768211455 }", "#[repr(u128)]", feats=fs)))
    # repr forms
    body = "pub enum E { A = 10, B = 11, C = 12 }"
    for lab, rl in [("missing", ""), ("twice-same", "#[repr(i8)]\n#[repr(i8)]"), ("twice-diff", "#[repr(i8)]\n#[repr(u8)]"), ("C", "#[repr(C)]"),
                    ("Rust", "#[repr(Rust)]"), ("transparent", "#[repr(transparent)]"), ("align", "#[repr(align(2))]"),
                    ("u8,u8", "#[repr(u8, u8)]"), ("C,u8", "#[repr(C, u8)]"), ("u8,C", "#[repr(u8, C)]"), ("bool", "#[repr(bool)]"),
                    ("char", "#[repr(char)]"), ("U8", "#[repr(U8)]"), ("path", "#[repr(::core::primitive::u8)]"), ("f32", "#[repr(f32)]"),
                    ("packed", "#[repr(packed)]"), ("empty", "#[repr()]"), ("i8+align", "#[repr(i8)]\n#[repr(align(1))]"),
                    ("i8,align", "#[repr(i8, align(1))]"), ("str", "#[repr(\"u8\")]"), ("eq", "#[repr = \"u8\"]"), ("i8+C", "#[repr(i8)]\n#[repr(C)]"),
                    ("u1", "#[repr(u1)]"), ("u256", "#[repr(u256)]"), ("i24", "#[repr(i24)]"), ("r#u8", "#[repr(r#u8)]")]:
        cases.append(("repr:%s" % lab, c12_case(body, rl)))
        cases.append(("repr:%s:none" % lab, c12_case(body, rl, feats="none")))
    # too many variants
    if tier == "thorough":
        for n in (65535, 65536):
            vs = ", ".join("V%d" % i for i in range(n))
            cases.append(("size:%d" % n, c12_case("pub enum E { %s }" % vs, "#[repr(u32)]")))
    return ok_cases, cases


def judge_cases(res, ok_cases, bad_cases, kind_ok="parent-does-not-compile", kind_bad="out-of-domain-accepted"):
    """ok_cases must compile (otherwise the menu itself is broken => machinery error unless the derive is the one
    rejecting); bad_cases must not."""
    vs = e2.compile_many([{"src": s} for _, s in ok_cases + bad_cases])
    oks, bads = vs[:len(ok_cases)], vs[len(ok_cases):]
    for (lab, src), v in zip(ok_cases, oks):
        res.states += 1
        res.transitions += 1
        res.validated += 1
        if not v.ok:
            if v.from_derive or any("enum_tools" in e or "EnumTools" in e for e in v.errors):
                res.violation({"kind": kind_ok, "case": lab, "errors": v.errors[:2]}, {"rustc": v.to_json(), "source": src},
                              {"repro.rs": src + "\nfn main() {}\n"})
            else:
                res.machinery_error("harness case %s (expected to compile) is rejected: %s" % (lab, v.errors[:3]))
        else:
            res.outcome("accepted-as-expected")
    for (lab, src), v in zip(bad_cases, bads):
        res.states += 1
        res.transitions += 1
        res.validated += 1
        if v.ok:
            res.violation({"kind": kind_bad, "case": lab}, {"source": src, "note": "this declaration/attribute must not compile but does"},
                          {"repro.rs": "// must NOT compile, but does:\n" + src + "\nfn main() {}\n"})
            res.outcome("ACCEPTED-but-must-be-rejected")
        else:
            res.nontrivial.add(lab)
            res.outcome("rejected-by-derive" if v.from_derive else "rejected-by-rustc-only")


def c12(tier):
    res = Result("C12", tier, "bounded-exhaustive mutation grammar over declarations (one documented rule broken per case), each case its own crate judged by rustc")
    ok_cases, cases = c12_cases(tier)
    judge_cases(res, ok_cases, cases)
    if tier == "quick":
        # 65535 / 65536 variants at expansion level (built for real in the thorough tier); an acceptance by E1 is confirmed by rustc
        import e1
        for n in (65535, 65536):
            decl = "#[enum_tools(into)] #[repr(u32)] pub enum E { %s }" % ", ".join("V%d" % i for i in range(n))
            st, txt = e1.expand_many([decl])[0]
            res.states += 1
            res.transitions += 1
            res.outcome("e1-size-%d:%s" % (n, st))
            if st == "OK":
                src = "use enum_tools::EnumTools;\n#[derive(Clone, Copy, EnumTools)]\n%s\nfn main() {}\n" % decl
                v = e2.compile_one(src)
                res.validated += 1
                if v.ok:
                    res.violation({"kind": "out-of-domain-accepted", "case": "size:%d" % n}, {"note": "more than 65534 variants accepted"},
                                  {"repro.rs": "// must NOT compile, but does:\n" + src})
    res.rule = ("states = declarations (each its own crate); non-trivial = distinct out-of-domain declarations that were rejected; "
                "a case rejected only by rustc for a reason independent of the derive still satisfies the property (recorded separately)")
    for lab, src in cases[:2] + cases[len(cases) // 2:len(cases) // 2 + 3]:
        res.sample({"case": lab, "source": src[-300:]})
    res.bounds = {"expr_depth": 2, "positions": "first/middle/last" if tier == "thorough" else "depth1: all, depth2: middle"}
    return res.finish()


# ------------------------------------------------------------------------------------------ C13

def attr_case(attr_lines, holes, variant_attr=None, extra_feats="", pos=0):
    va = (variant_attr + " ") if variant_attr else ""
    vals = (1, 5, 9) if holes else (1, 2, 3)
    body = "pub enum E { %s }" % ", ".join("%s%s = %d" % (va if i == pos else "", nm, v) for i, (nm, v) in enumerate(zip("ABC", vals)))
    attrs = "\n".join(attr_lines)
    return "#![allow(warnings)]\nuse enum_tools::EnumTools;\n#[derive(Clone, Copy, EnumTools)]\n%s\n#[repr(i16)]\n%s\n" % (attrs, body)


def c13_cases(tier):
    ok, bad = [], []
    F = catalogue.FEATURES

    def both(label, inner, is_ok, split=None):
        for holes in (False, True):
            if "iter(mode = \"range\")" in inner and holes and is_ok:
                continue
            src = attr_case(["#[enum_tools(%s)]" % inner], holes)
            (ok if is_ok else bad).append(("%s:%s" % (label, "holes" if holes else "gapless"), src))

    # parents
    for f in F:
        if f == "range":
            both("parent:range", "iter, range", True)
        else:
            both("parent:" + f, f, True)
    # unknown features (near misses)
    for nm in ["As_str", "AS_STR", "asstr", "as_string", "__as_str", "__MIN", "table_name", "table_enum", "table_range", "From", "from",
               "min", "max", "Min", "Next", "prev", "Iter", "Names", "Range", "Sorted", "sort", "tryfrom", "try_into", "Try_From",
               "into_str", "Intostr", "to_str", "display", "debug", "fromstr", "Fromstr", "rename", "name", "vis", "mode", "x", "_",
               "enum_tools", "repr"]:
        both("unknown-feature:" + nm, nm, False)
        both("unknown-feature+valid:" + nm, "into, %s" % nm, False)
        both("unknown-feature-params:" + nm, "%s(name = \"x\")" % nm, False)
    # unknown feature in a second attribute
    for holes in (False, True):
        bad.append(("unknown-feature-second-attr:%s" % holes, attr_case(["#[enum_tools(into)]", "#[enum_tools(bogus)]"], holes)))
        ok.append(("two-attrs:%s" % holes, attr_case(["#[enum_tools(into)]", "#[enum_tools(iter, range)]"], holes)))
    # closedness matrix: each feature x each parameter name, with and without a value
    pnames = ["name", "vis", "mode", "struct_name", "struct_", "value", "rename", "bogus", "Name", "names", "visibility", "modes"]
    good_val = {"name": "\"zz_x\"", "vis": "\"pub\"", "mode": "\"auto\"", "struct_name": "\"ZzS\""}
    for f in F + ["sorted"]:
        pre = "iter, " if f == "range" else ""
        for p in pnames:
            documented = p in catalogue.PARAMS[f]
            if f == "sorted":
                both("matrix:sorted(%s)" % p, "sorted(%s)" % p, documented)
                both("matrix:sorted(%s=v)" % p, "sorted(%s = \"x\")" % p, False)
                continue
            val = good_val.get(p, "\"x\"")
            both("matrix:%s(%s=v)" % (f, p), "%s%s(%s = %s)" % (pre, f, p, val), documented)
            both("matrix:%s(%s)" % (f, p), "%s%s(%s)" % (pre, f, p), False)   # documented parameters need a string value
    # an unknown parameter next to valid ones (both orders); every documented parameter at once must be accepted
    for f in F:
        docp = [p for p in ("name", "vis", "mode", "struct_name") if p in catalogue.PARAMS[f]]
        pre = "iter, " if f == "range" else ""
        if docp:
            allp = ", ".join("%s = %s" % (p, good_val[p]) for p in docp)
            both("all-params:%s" % f, "%s%s(%s)" % (pre, f, allp), True)
            both("valid+unknown:%s" % f, "%s%s(%s, bogus = \"x\")" % (pre, f, allp), False)
            both("unknown+valid:%s" % f, "%s%s(bogus = \"x\", %s)" % (pre, f, allp), False)
            both("valid+bare-unknown:%s" % f, "%s%s(%s, bogus)" % (pre, f, allp), False)
        else:
            both("unknown-on-plain:%s" % f, "%s(bogus = \"x\")" % f, False)
            both("empty-parens:%s" % f, "%s()" % f, True)
    # duplicated feature / parameter
    for f in F:
        inner = "iter, range" if f == "range" else f
        both("dup-feature:" + f, "%s, %s" % (inner, f), False)
        for holes in (False, True):
            pre = ["#[enum_tools(iter)]"] if f == "range" else []
            bad.append(("dup-feature-across:%s:%s" % (f, holes), attr_case(pre + ["#[enum_tools(%s)]" % f, "#[enum_tools(%s)]" % f], holes)))
    for f in catalogue.NAMEABLE:
        pre = "iter, " if f == "range" else ""
        both("dup-param:%s:name" % f, "%s%s(name = \"a\", name = \"b\")" % (pre, f), False)
        both("dup-param:%s:vis" % f, "%s%s(vis = \"pub\", vis = \"pub\")" % (pre, f), False)
    for f in catalogue.MODED:
        both("dup-param:%s:mode" % f, "%s(mode = \"auto\", mode = \"auto\")" % f, False)
    both("dup-param:sorted", "sorted(name, name)", False)
    # mode values outside the documented set
    for f, modes in catalogue.MODED.items():
        for m in ["", "Auto", "AUTO", "tables", "inline", "Table", " table", "table ", "match_", "next", "next_back", "range_", "auto,table",
                  "default", "none", "tableinline", "table-inline", "NextAndBack"] + (["range", "next_and_back", "table_inline"] if f != "iter" else []):
            both("bad-mode:%s:%r" % (f, m), "%s(mode = %s)" % (f, rust_str(m)), False)
    # visibility outside the documented values
    for f in catalogue.NAMEABLE:
        pre = "iter, " if f == "range" else ""
        vis_bad = ["pub(super)", "pub(self)", "pub(in crate)", "crate", "PUB", " pub", "pub ", "pub(crate) ", "private", "pub (crate)", "pub(crate::x)"]
        if tier == "quick" and f not in ("as_str", "iter", "MIN"):
            vis_bad = vis_bad[:4]
        for v in vis_bad:
            both("bad-vis:%s:%r" % (f, v), "%s%s(vis = %s)" % (pre, f, rust_str(v)), False)
    # wrong kind
    for inner in ["as_str(mode = 1)", "as_str(mode)", "as_str(name = 1)", "as_str(name)", "as_str(vis = true)", "as_str(vis)", "as_str(vis = 'p')",
                  "as_str(name = b\"x\")", "sorted(name = \"x\")", "sorted(value = 1)", "as_str = \"x\"", "as_str = 1", "a::b", "::as_str", "as_str::x",
                  "as_str(a::b = \"x\")", "as_str(mode = \"table\"(x))", "iter(struct_name = 1)", "iter(struct_name)", "\"as_str\"", "1", "as_str()()",
                  "as_str(name = \"a\" + \"b\")", "as_str(name = concat!(\"a\"))", "as_str(mode = (\"auto\"))", "as_str(mode = -1)",
                  "into(into)", "Debug(x)", "Debug(name = \"x\")", "Display(vis = \"pub\")", "Into(mode = \"auto\")", "TryFrom(name = \"t\")",
                  "IntoStr(name = \"t\")", "FromStr(name = \"f\")", "FromStr(vis = \"pub\")", "as_str(name = \"\")", "as_str(name = \"1x\")",
                  "as_str(name = \"a b\")", "as_str(name = \"fn\")", "iter(struct_name = \"\")", "iter(struct_name = \"a-b\")"]:
        both("wrong-kind:" + inner, inner, False)
    for holes in (False, True):
        bad.append(("bare-attr:%s" % holes, attr_case(["#[enum_tools]"], holes)))
        bad.append(("eq-attr:%s" % holes, attr_case(["#[enum_tools = \"as_str\"]"], holes)))
    # contradictions
    both("range-without-iter", "range", False)
    both("range-without-iter+names", "range, names, next, next_back, MIN, MAX", False)
    both("range+table_inline", "iter(mode = \"table_inline\"), range", False)
    both("range+table_inline-rev", "range, iter(mode = \"table_inline\")", False)
    for holes in (False, True):
        bad.append(("range+table_inline-split:%s" % holes, attr_case(["#[enum_tools(range)]", "#[enum_tools(iter(mode = \"table_inline\"))]"], holes)))
        bad.append(("range-split-without-iter:%s" % holes, attr_case(["#[enum_tools(into)]", "#[enum_tools(range)]"], holes)))
    # the same contradictions and a sample of every other rejection class on LARGER shapes (seed T3-r7m2: an explicit table_inline was
    # rewritten to table for tables over 64 bytes before the range/table_inline conflict is checked)
    def body(vals):
        return ", ".join("V%d = %d" % (i, v) for i, v in enumerate(vals))
    big_shapes = [("i64", list(range(-3, 9))), ("i64", [x for x in range(-3, 11) if x != 4]), ("u128", [0, 1, 2, 3, 4, 5, 9]), ("u128", list(range(6))),
                  ("u8", list(range(70))), ("u8", [x for x in range(72) if x not in (30, 31)]), ("i16", list(range(-150, 150))),
                  ("i16", [x for x in range(-150, 152) if x not in (0, 77)]), ("u16", [x for x in range(0, 60) if x % 3 != 0]), ("usize", list(range(20)))]
    for rr, vals in big_shapes:
        gap = (vals[-1] - vals[0] + 1 == len(vals))
        sample_bad = ["iter(mode = \"table_inline\"), range", "range, iter(mode = \"table_inline\")", "range", "range, names",
                      "iter(mode = \"inline\")", "as_str(mode = \"Table\")", "iter(vis = \"pub(super)\")", "iter, iter", "iter(bogus)", "Iter",
                      "names(struct_name = 3)", "iter(mode = \"table_inline\", mode = \"table\")"]
        if not gap:
            sample_bad += ["iter(mode = \"range\")", "iter(mode = \"range\"), range"]
        for inner in sample_bad:
            bad.append(("big-shape:%s:%d:%s" % (rr, len(vals), inner),
                        "#![allow(warnings)]\nuse enum_tools::EnumTools;\n#[derive(Clone, Copy, EnumTools)]\n#[enum_tools(%s)]\n#[repr(%s)]\npub enum E { %s }\n" % (inner, rr, body(vals))))
        for inner in ["iter(mode = \"table_inline\")", "iter(mode = \"table\"), range", "iter, range"] + (["iter(mode = \"range\"), range"] if gap else []):
            ok.append(("big-shape-ok:%s:%d:%s" % (rr, len(vals), inner),
                       "#![allow(warnings)]\nuse enum_tools::EnumTools;\n#[derive(Clone, Copy, EnumTools)]\n#[enum_tools(%s)]\n#[repr(%s)]\npub enum E { %s }\n" % (inner, rr, body(vals))))
    # iter range mode on enums with holes
    hole_enums = ["A = 1, B = 3", "A = 0, B = 1, C = 3", "A = -2, B = 0", "A = 3, B = 1", "A = -32768, B = 32767", "A, B, C = 4", "A = 1, B, C = 4, D",
                  "A = 5, B = 7, C = 6, D = 9", "A = 0, B = 2, C = 1, D = 4"]
    # holes whose size is a multiple of 2^8 / 2^16 / 2^32 (a gap test through a narrow type would miss them), wide reprs
    for rr, he in (("i64", "A = 0, B = 257"), ("u32", "A = 0, B = 65537"), ("i64", "A = 0, B = 4294967297"), ("i32", "A = -1, B = 0, C = 131073"),
                   ("u64", "A = 0, B = 1, C = 65538"), ("i64", "A = -9223372036854775808, B = 9223372036854775807"), ("u16", "A = 0, B = 257"),
                   ("i64", "A = 5, B = 261, C = 517"), ("i128", "A = 0, B = 1, C = 4294967298"), ("usize", "A = 1, B = 65538"),
                   ("i64", "A = 0, B = 2, C = 1, D = 65540")):
        for inner in ("iter(mode = \"range\")", "iter(mode = \"range\"), range"):
            bad.append(("iter-range-on-wide-holes:%s:%s:%s" % (rr, he, inner),
                        "#![allow(warnings)]\nuse enum_tools::EnumTools;\n#[derive(Clone, Copy, EnumTools)]\n#[enum_tools(%s)]\n#[repr(%s)]\npub enum E { %s }\n" % (inner, rr, he)))
        ok.append(("iter-auto-on-wide-holes:%s:%s" % (rr, he),
                   "#![allow(warnings)]\nuse enum_tools::EnumTools;\n#[derive(Clone, Copy, EnumTools)]\n#[enum_tools(iter, range)]\n#[repr(%s)]\npub enum E { %s }\n" % (rr, he)))
    for he in hole_enums:
        for inner in ("iter(mode = \"range\")", "iter(mode = \"range\"), range", "as_str, iter(mode = \"range\", name = \"it\")"):
            bad.append(("iter-range-on-holes:%s:%s" % (he, inner),
                        "#![allow(warnings)]\nuse enum_tools::EnumTools;\n#[derive(Clone, Copy, EnumTools)]\n#[enum_tools(%s)]\n#[repr(i16)]\npub enum E { %s }\n" % (inner, he)))
    ok.append(("iter-range-on-gapless-unordered", "#![allow(warnings)]\nuse enum_tools::EnumTools;\n#[derive(Clone, Copy, EnumTools)]\n#[enum_tools(iter(mode = \"range\"), range)]\n#[repr(i16)]\npub enum E { A = 5, B = 7, C = 6 }\n"))
    # variant-level attributes: only rename = "string literal"
    for holes in (False, True):
        ok.append(("variant-rename:%s" % holes, attr_case(["#[enum_tools(as_str)]"], holes, "#[enum_tools(rename = \"x\")]")))
        for va in ["#[enum_tools]", "#[enum_tools = \"x\"]", "#[enum_tools(rename)]", "#[enum_tools(rename = 1)]", "#[enum_tools(rename = b\"x\")]",
                   "#[enum_tools(rename(\"x\"))]", "#[enum_tools(name = \"x\")]", "#[enum_tools(Rename = \"x\")]", "#[enum_tools(as_str)]",
                   "#[enum_tools(rename = \"x\", rename = \"y\")]", "#[enum_tools(rename = \"x\", name = \"y\")]", "#[enum_tools(rename = 'x')]",
                   "#[enum_tools(rename = true)]", "#[enum_tools()]", "#[enum_tools(rename = \"x\",)]" if False else "#[enum_tools(renamed = \"x\")]",
                   "#[enum_tools(r#rename = \"x\")]", "#[enum_tools(::rename = \"x\")]", "#[enum_tools(a::rename = \"x\")]",
                   "#[enum_tools(rename = \"x\")] #[enum_tools(bogus = \"y\")]", "#[enum_tools(rename = concat!(\"a\", \"b\"))]",
                   "#[enum_tools(rename = -1)]", "#[enum_tools(vis = \"pub\")]", "#[enum_tools(mode = \"table\")]", "#[enum_tools(sorted)]"]:
            for feats in ("as_str", "into"):
                bad.append(("variant-attr:%s:%s:%s" % (va, feats, holes), attr_case(["#[enum_tools(%s)]" % feats], holes, va)))
            # several enum_tools attributes on one variant: an invalid one is rejected wherever it stands (seed C13-r6m2: only the
            # last attribute of a variant was validated), on every variant position
            good = "#[enum_tools(rename = \"x\")]"
            for pos in (0, 1, 2):
                if holes and pos == 1:
                    continue
                bad.append(("variant-attr-invalid-first:%s:%d:%s" % (va, pos, holes), attr_case(["#[enum_tools(as_str)]"], holes, va + " " + good, pos=pos)))
                bad.append(("variant-attr-invalid-last:%s:%d:%s" % (va, pos, holes), attr_case(["#[enum_tools(as_str)]"], holes, good + " " + va, pos=pos)))
            bad.append(("variant-attr-invalid-middle:%s:%s" % (va, holes), attr_case(["#[enum_tools(into)]"], holes, "/// doc\n" + good + " " + va + " #[doc = \"x\"] " + good, pos=2)))
    return ok, bad


def c13(tier):
    res = Result("C13", tier, "bounded-exhaustive mutation menu over attribute contents (one change per case from a legal parent), each case its own crate judged by rustc")
    ok, bad = c13_cases(tier)
    judge_cases(res, ok, bad, kind_ok="legal-attribute-rejected", kind_bad="invalid-configuration-accepted")
    res.rule = ("states = attribute contents (each its own crate, gapless and with-holes enum); parents must compile, mutated cases must not; "
                "non-trivial = distinct invalid configurations rejected")
    for lab, src in bad[:2] + bad[len(bad) // 2:len(bad) // 2 + 3]:
        res.sample({"case": lab, "source": src[-260:]})
    return res.finish()


# ------------------------------------------------------------------------------------------ C14

def c14_cases(tier):
    maxn = 3 if tier == "quick" else 4
    cases = []   # (label, src, expect_ok)
    sorted_forms = [None, "sorted", "sorted(name)", "sorted(value)", "sorted(name, value)", "sorted(value, name)"]
    # third window: the limits of the documented domain (seed C14-r6m1: the comparison after i64::MAX was lost when a sentinel
    # became an Option)
    for r, window in (("i8", [-3, -2, -1, 0, 1, 2]), ("u8", [0, 1, 2, 3, 4, 5]), ("i64", [enums.I64_MIN, -1, 0, 1, enums.I64_MAX])) + (
            (("i128", [enums.I64_MIN, enums.I64_MIN + 1, enums.I64_MAX - 1, enums.I64_MAX]),) if tier == "thorough" else ()):
        limited = r in ("i64", "i128")
        if tier == "quick" and r == "u8":
            window = window[:4]
        for n in range(1, maxn + 1):
            for comb in itertools.combinations(window, n):
                for perm in itertools.permutations(comb):
                    for expl in itertools.product((True, False), repeat=n):
                        if tier == "quick" and n == 3 and r == "u8" and expl not in ((True,) * 3, (False, True, False)):
                            continue
                        # name assignments
                        order_idx = sorted(range(n), key=lambda i: perm[i])   # positions sorted by the intended value
                        for na in ("by-value", "reverse", "rename-invert", "prefix-equal", "equal-pair", "equal-last", "rename-fix",
                                   "partial-fix", "partial-break", "empty-first", "awkward-asc", "awkward-desc"):
                            if n == 1 and na != "by-value":
                                continue
                            if limited and na not in ("by-value", "reverse"):
                                continue
                            if tier == "quick" and na == "prefix-equal" and n > 2:
                                continue
                            idents = [None] * n
                            renames = [None] * n
                            if na == "by-value":
                                for rank, pos in enumerate(order_idx):
                                    idents[pos] = "N%d" % rank
                            elif na == "reverse":
                                for rank, pos in enumerate(order_idx):
                                    idents[pos] = "N%d" % (n - 1 - rank)
                            elif na == "rename-invert":
                                # identifiers ascending in declaration order, renames descending in declaration order
                                for pos in range(n):
                                    idents[pos] = "N%d" % pos
                                    renames[pos] = "r%d" % (n - 1 - pos)
                            elif na in ("empty-first", "awkward-asc", "awkward-desc"):
                                # byte-wise order of unusual names: the empty name first, then space < "A*" < "B" < "a b" < "é" < "日本"
                                pool = ["", " ", "A*", "B", "a b", "\u00e9", "\u65e5\u672c"]
                                pick = pool[:n] if na == "empty-first" else (pool[1::2][:n] + pool[:1])[:n] if False else pool[7 - n:]
                                if na == "empty-first":
                                    pick = pool[:n]
                                elif na == "awkward-desc":
                                    pick = pick[::-1]
                                for pos in range(n):
                                    idents[pos] = "N%d" % pos
                                    renames[pos] = pick[pos]
                            elif na == "rename-fix":
                                # identifiers DESCENDING in declaration order, renames ascending: sorted by name only thanks to the renames
                                for pos in range(n):
                                    idents[pos] = "N%d" % (n - 1 - pos)
                                    renames[pos] = "a%d" % pos
                            elif na in ("partial-fix", "partial-break"):
                                # only the second variant is renamed: its identifier and its name fall on different sides of the neighbours
                                if n < 2:
                                    continue
                                base = ["B", "D", "F", "H"]
                                for pos in range(n):
                                    idents[pos] = base[pos]
                                if na == "partial-fix":
                                    idents[1] = "Zz"          # identifier out of order …
                                    renames[1] = "C" if n > 2 else "C"   # … name in order (B < C < F)
                                else:
                                    renames[1] = "Zz" if n > 2 else "A"  # identifier in order, name out of order
                            elif na in ("equal-pair", "equal-last"):
                                # two adjacent variants carry the SAME name after renaming (first pair / last pair)
                                pool = ["Q", "Q", "R", "S"] if na == "equal-pair" else ["O", "P", "Q", "Q"][4 - n:]
                                for pos in range(n):
                                    idents[pos] = "N%d" % pos
                                    renames[pos] = pool[pos]
                            else:
                                # prefix pair "A"/"AA" then an equal pair
                                pool = ["A", "AA", "AA", "B"]
                                for pos in range(n):
                                    idents[pos] = "N%d" % pos
                                    renames[pos] = pool[pos]
                            variants = [Variant(idents[i], lit=str(perm[i]) if expl[i] else None, rename=renames[i]) for i in range(n)]
                            d = EnumDecl(r, variants)
                            if not d.in_domain:
                                continue
                            vals = [v.value for v in d.variants]
                            names = [v.name.encode() for v in d.variants]
                            val_sorted = all(vals[i] < vals[i + 1] for i in range(n - 1))
                            name_sorted = all(names[i] < names[i + 1] for i in range(n - 1))
                            for sf in sorted_forms:
                                if tier == "quick" and sf in ("sorted", "sorted(value, name)") and n > 2:
                                    continue
                                want = True
                                if sf and "name" in sf:
                                    want = want and name_sorted
                                if sf and "value" in sf:
                                    want = want and val_sorted
                                attrs = ["into, as_str"] + ([sf] if sf else [])
                                src = "#![allow(warnings)]\nuse enum_tools::EnumTools;\n" + d.render(attrs, indent="") + "\n"
                                cases.append(("%s %s %s %s" % (r, [(v.ident, v.lit, v.rename) for v in variants], na, sf), src, want,
                                              {"vals": vals, "names": [x.decode() for x in names], "sorted": sf}))
    return cases


def c14(tier):
    res = Result("C14", tier, "bounded-exhaustive enumeration of declaration orders (all n! permutations) x implicit/explicit patterns x name assignments x sorted forms, each judged by rustc against the reference predicate")
    cases = c14_cases(tier)
    # dedupe identical sources
    seen = {}
    uniq = []
    for c in cases:
        if c[1] not in seen:
            seen[c[1]] = True
            uniq.append(c)
    # The sorted check lives in the parser: every case is expanded in-process by the real parser (E1); rustc judges all cases in the
    # thorough tier and a fixed 1-in-6 slice (plus every case on which E1 disagrees with the reference predicate) in the quick tier.
    import e1
    import re as _re
    texts = [_re.sub(r"#\[derive\([^)]*\)\]\s*", "", _re.sub(r"^#!\[allow\(warnings\)\]\nuse enum_tools::EnumTools;\n", "", c[1])) for c in uniq]
    e1out = e1.expand_many(texts)
    judge = [i for i, c in enumerate(uniq) if tier == "thorough" or i % 6 == 0 or (e1out[i][0] == "OK") != c[2]]
    vs = dict(zip(judge, e2.compile_many([{"src": uniq[i][1]} for i in judge])))
    res.extra["judged_by_rustc"] = len(judge)
    res.extra["expanded_in_process"] = len(uniq)
    for i, (lab, src, want, info) in enumerate(uniq):
        res.states += 1
        res.transitions += 1
        e1ok = e1out[i][0] == "OK"
        v = vs.get(i)
        if v is not None:
            res.validated += 1
            if v.ok != e1ok:
                res.machinery_error("E1 and rustc disagree on %s: E1 %s, rustc %s %s" % (lab, e1out[i][0], v.ok, v.errors[:2]))
            if v.ok != want:
                res.violation({"kind": "sorted-accepts-unsorted" if v.ok else "sorted-rejects-sorted", "case": lab},
                              {"expected_compiles": want, "compiles": v.ok, "info": info, "rustc": v.to_json(), "source": src},
                              {"repro.rs": ("// must %scompile\n" % ("" if want else "NOT ")) + src + "\nfn main() {}\n"})
        res.outcome(("compiles" if e1ok else "rejected") + (":" + str(info["sorted"])))
        if not want:
            res.nontrivial.add(lab)
    res.rule = ("states = (declaration, sorted form) pairs, each its own crate; expectation = strict ascending order of discriminants / of byte-wise "
                "names after renaming; non-trivial = cases that must be rejected")
    for c in uniq[:2] + uniq[len(uniq) // 2:len(uniq) // 2 + 3]:
        res.sample({"case": c[0], "must_compile": c[2]})
    res.bounds = {"max_variants": 3 if tier == "quick" else 4, "orders": "all n!", "windows": "i8 [-3,2], u8 [0,5]"}
    return res.finish()


CHECKS = {"C11": c11, "C12": c12, "C13": c13, "C14": c14}
