"""E3: generated subject crates with the real derive + the non-generic driver (DESIGN.md §2.3).

A *subject* is one enum declaration + one configuration, rendered as a Rust module with
type-erased glue.  Subjects are grouped in batches (one bin crate each) inside a cargo workspace
so that cargo builds them 16 at a time; each batch binary runs its subjects and reports lines that
are parsed here.  A batch that aborts (e.g. an `unsafe precondition violated` abort in a debug
build) is restarted after the subject that was running, which is recorded as a crash observation.
"""
import concurrent.futures as cf
import json
import os
import shutil
import subprocess

from common import (ENV, NCPU, REPO, TARGET, VERIF, WORK, MachineryError, log, repo_lock, run,
                    write_if_changed)
from enums import REPRS, boundary_values, rust_str

FN_FEATURES = ["as_str", "from_str", "into", "MAX", "MIN", "next", "next_back", "try_from"]
TRAIT_FEATURES = ["Debug", "Display", "FromStr", "Into", "IntoStr", "TryFrom"]
ITER_FEATURES = ["iter", "names", "range"]
USER_FEATURES = FN_FEATURES + TRAIT_FEATURES + ITER_FEATURES
NAMEABLE = FN_FEATURES + ITER_FEATURES


# must mirror engines/driver/src/iters.rs `ms_expected`
MS_SCRIPT = """fn f_%(w)s_ms() -> Vec<Obs> {
    use ::driver::MS_NONE;
    let o = |x: Option<%(item)s>| x.map_or(MS_NONE, %(conv)s);
    let mut v: Vec<Obs> = Vec::new();
    let mut it = %(mk)s;
    v.push(Obs::D(it.len() as i128));
    v.push(o(it.next()));
    v.push(Obs::D(it.len() as i128));
    v.push(o(it.next_back()));
    v.push(Obs::D(it.len() as i128));
    let sh = it.size_hint();
    v.push(Obs::D(sh.0 as i128));
    v.push(Obs::D(sh.1.map_or(-1, |x| x as i128)));
    v.push(o(it.nth(1)));
    v.push(Obs::D(it.len() as i128));
    v.push(o(it.nth_back(0)));
    v.push(Obs::D(it.len() as i128));
    v.push(Obs::D(it.count() as i128));
    v.push(o(%(mk)s.last()));
    v.push(o(%(mk)s.rev().next()));
    v.push(Obs::D(%(mk)s.fold(0i128, |a, _| a + 1)));
    v.push(o(%(mk)s.skip(2).next()));
    v.push(Obs::D(%(mk)s.len() as i128));
    v
  }"""


class Config:
    """An ordered feature list with parameters, optionally split over several attributes."""

    def __init__(self, feats, split=None):
        self.feats = []
        for f in feats:
            if isinstance(f, str):
                self.feats.append((f, {}))
            else:
                self.feats.append((f[0], dict(f[1])))
        self.split = split  # list of lists of indices into feats, or None (= one attribute)

    def has(self, name):
        return any(f == name for f, _ in self.feats)

    def params(self, name):
        for f, p in self.feats:
            if f == name:
                return p
        return None

    def item(self, name):
        p = self.params(name) or {}
        return p.get("name", name)

    @staticmethod
    def render_feat(f, p):
        if not p:
            return f
        inner = []
        for k, v in p.items():
            if v is None:
                inner.append(k)
            else:
                inner.append("%s = %s" % (k, rust_str(v)))
        return "%s(%s)" % (f, ", ".join(inner))

    def attr_lines(self):
        rendered = [self.render_feat(f, p) for f, p in self.feats]
        if not rendered:
            return []
        if self.split is None:
            return [", ".join(rendered)]
        return [", ".join(rendered[i] for i in grp) for grp in self.split if grp]

    def attr_text(self):
        """the features as ONE attribute's content ('' for the empty configuration: `#[enum_tools()]` is legal)"""
        ls = self.attr_lines()
        return ls[0] if ls else ""

    def key(self):
        return "|".join(self.attr_lines())

    def describe(self):
        return self.attr_lines()


def subject_source(sid, decl, cfg, derive_use="use ::enum_tools::EnumTools;", bounds=None, args=None,
                   sweep_full=True, sweep32=False, prelude="", inner_attrs="", scope_items="", phases=None, m_external=None):
    """Rust text of one subject module `pub mod <sid>` exposing `pub static SUBJECT`."""
    b = dict(x1_depth=3, x2_extra=2, x2_cap=8, range_x1_depth=2, range_x2_extra=2,
             range_pair_step=0, consumers=True, light=False)
    if bounds:
        b.update(bounds)
    R = decl.repr
    E = decl.name
    n = len(decl.variants)
    WN = "W" if b["consumers"] and b.get("w_iter", True) else "::driver::WL"
    L = []
    L.append("pub mod %s {" % sid)
    L.append("  #![allow(dead_code, unused_imports, unreachable_patterns, non_camel_case_types, clippy::all)]")
    if m_external is None:
        L.append(module_m_source(decl, cfg, derive_use, inner_attrs, scope_items))
        L.append("  use self::m::%s as E;" % E)
    else:
        L.append("  use %s::m::%s as E;" % (m_external, E))
    L.append("  type R = %s;" % R)
    L.append("  use ::driver::{Obs, DynIter, W};")
    L.append("  static VARS: [E; %d] = [%s];" % (n, ", ".join("E::%s" % v.ident for v in decl.variants)))
    L.append("  fn disc(i: usize) -> i128 { VARS[i] as R as i128 }")
    L.append("  fn ob(e: E) -> Obs { Obs::D(e as R as i128) }")
    L.append("  fn obs(s: &'static str) -> Obs { Obs::S(s) }")
    fields = []

    def fld(name, body_fn):
        L.append("  " + body_fn)
        fields.append("%s: Some(f_%s)" % (name, name))

    if cfg.has("into"):
        fld("into_fn", "fn f_into_fn(i: usize) -> i128 { <E>::%s(VARS[i]) as i128 }" % cfg.item("into"))
    if cfg.has("Into"):
        fld("into_tr", "fn f_into_tr(i: usize) -> i128 { <R as ::core::convert::From<E>>::from(VARS[i]) as i128 }")
    if cfg.has("try_from"):
        fld("try_from_fn", "fn f_try_from_fn(n: i128) -> Option<i128> { <E>::%s(n as R).map(|e| e as R as i128) }" % cfg.item("try_from"))
    if cfg.has("TryFrom"):
        fld("try_from_tr", "fn f_try_from_tr(n: i128) -> Option<i128> { match <E as ::core::convert::TryFrom<R>>::try_from(n as R) { Ok(e) => Some(e as R as i128), Err(()) => None } }")
    if cfg.has("as_str"):
        fld("as_str", "fn f_as_str(i: usize) -> &'static str { <E>::%s(VARS[i]) }" % cfg.item("as_str"))
    if cfg.has("Display"):
        fld("display", "fn f_display(i: usize) -> String { format!(\"{}\", VARS[i]) }")
    if cfg.has("Debug"):
        fld("debug", "fn f_debug(i: usize) -> String { format!(\"{:?}\", VARS[i]) }")
    if cfg.has("IntoStr"):
        fld("into_str", "fn f_into_str(i: usize) -> &'static str { <&'static str as ::core::convert::From<E>>::from(VARS[i]) }")
    if cfg.has("from_str"):
        fld("from_str_fn", "fn f_from_str_fn(s: &str) -> Option<i128> { <E>::%s(s).map(|e| e as R as i128) }" % cfg.item("from_str"))
    if cfg.has("FromStr"):
        fld("from_str_tr", "fn f_from_str_tr(s: &str) -> Option<i128> { match <E as ::core::str::FromStr>::from_str(s) { Ok(e) => { let p: Result<E, ()> = s.parse::<E>(); assert!(matches!(p, Ok(q) if q as R == e as R)); Some(e as R as i128) }, Err(()) => None } }")
    if cfg.has("MIN"):
        fld("min", "fn f_min() -> i128 { <E>::%s as R as i128 }" % cfg.item("MIN"))
    if cfg.has("MAX"):
        fld("max", "fn f_max() -> i128 { <E>::%s as R as i128 }" % cfg.item("MAX"))
    if cfg.has("next"):
        fld("next", "fn f_next(i: usize) -> Option<i128> { <E>::%s(VARS[i]).map(|e| e as R as i128) }" % cfg.item("next"))
    if cfg.has("next_back"):
        fld("next_back", "fn f_next_back(i: usize) -> Option<i128> { <E>::%s(VARS[i]).map(|e| e as R as i128) }" % cfg.item("next_back"))
    if cfg.has("iter"):
        fld("iter", "fn f_iter() -> Box<dyn DynIter> { Box::new(%s(<E>::%s(), ob as fn(E) -> Obs)) }" % (WN, cfg.item("iter")))
    if cfg.has("range"):
        fld("range", "fn f_range(a: usize, b: usize) -> Box<dyn DynIter> { Box::new(%s(<E>::%s(VARS[a], VARS[b]), ob as fn(E) -> Obs)) }" % (WN, cfg.item("range")))
    if cfg.has("names"):
        fld("names", ("fn f_names() -> Box<dyn DynIter> { Box::new(::driver::WS(<E>::%s())) }" if b["consumers"] and b.get("w_names", True) else "fn f_names() -> Box<dyn DynIter> { Box::new(::driver::WL(<E>::%s(), obs as fn(&'static str) -> Obs)) }") % cfg.item("names"))
    if cfg.has("iter"):
        fld("iter_ms", MS_SCRIPT % {"w": "iter", "item": "E", "conv": "ob", "mk": "<E>::%s()" % cfg.item("iter")})
    if cfg.has("names"):
        fld("names_ms", MS_SCRIPT % {"w": "names", "item": "&'static str", "conv": "obs", "mk": "<E>::%s()" % cfg.item("names")})
    if cfg.has("names") and cfg.has("iter"):
        fld("zip", "fn f_zip() -> Vec<(i128, &'static str)> { <E>::%s().zip(<E>::%s()).map(|(e, s)| (e as R as i128, s)).collect() }" % (cfg.item("iter"), cfg.item("names")))
    if args is None:
        args = boundary_values(decl)
    decl_rows = ", ".join("(%d, %s, %s)" % (v.value, rust_str(v.ident), rust_str(v.name)) for v in decl.variants)
    L.append("  static DECL: [(i128, &str, &str); %d] = [%s];" % (n, decl_rows))
    L.append("  static ARGS: [i128; %d] = [%s];" % (len(args), ", ".join("i128::MIN" if a == -(1 << 127) else str(a) for a in args)))
    bits, signed = REPRS[R]
    L.append("  pub static SUBJECT: ::driver::Subject = ::driver::Subject {")
    L.append("    id: %s, repr: %s, bits: %d, signed: %s, decl: &DECL, disc, args: &ARGS, sweep_full: %s, sweep32: %s," % (
        rust_str(sid), rust_str(R), bits, "true" if signed else "false", "true" if sweep_full else "false", "true" if sweep32 else "false"))
    for f in fields:
        L.append("    %s," % f)
    L.append("    x1_depth: %d, x2_extra: %d, x2_cap: %d, range_x1_depth: %d, range_x2_extra: %d, range_pair_step: %d, consumers: %s," % (
        b["x1_depth"], b["x2_extra"], b["x2_cap"], b["range_x1_depth"], b["range_x2_extra"],
        b["range_pair_step"], "true" if b["consumers"] else "false"))
    L.append("    light: %s," % ("true" if b["light"] else "false"))
    L.append("    ..::driver::SUBJECT_DEFAULT")
    L.append("  };")
    L.append("}")
    return "\n".join(L)


def module_m_source(decl, cfg, derive_use="use ::enum_tools::EnumTools;", inner_attrs="", scope_items=""):
    L = ["  pub mod m {"]
    if inner_attrs:
        L.append("    " + inner_attrs)
    L.append("    " + derive_use)
    if scope_items:
        L.append(scope_items)
    L.append(decl.render(cfg.attr_lines(), indent="    "))
    L.append("  }")
    return "\n".join(L)


class Subj:
    """One subject of a run: id, declaration, configuration, options."""

    def __init__(self, sid, decl, cfg, **opts):
        self.sid = sid
        self.decl = decl
        self.cfg = cfg
        self.opts = opts
        self.group = opts.pop("group", None)   # subjects of one group are compared by transcript hash
        self.weight = opts.pop("weight", None)

    def source(self):
        return subject_source(self.sid, self.decl, self.cfg, **self.opts)

    def describe(self):
        d = self.decl.describe()
        d["config"] = self.cfg.describe()
        d["id"] = self.sid
        return d

    def standalone(self):
        """A self-contained rendering for replay artefacts (real derive, no driver)."""
        return ("use enum_tools::EnumTools;\n" + self.decl.render(self.cfg.attr_lines(), indent="") + "\n")


CARGO_WS = """[workspace]
members = [%s]
resolver = "2"

[profile.dev]
debug = 0
incremental = false
opt-level = 0
overflow-checks = true
debug-assertions = true
panic = "unwind"

[profile.dev.package.driver]
opt-level = 2
debug-assertions = false
overflow-checks = false
"""

CARGO_BATCH = """[package]
name = "%s"
version = "0.0.0"
edition = "2021"

[[bin]]
name = "%s"
path = "main.rs"

[dependencies]
driver = { path = "%s/engines/driver" }
%s
"""


def _batches(subjects, nb):
    """Deterministic balanced split (by weight = number of variants)."""
    order = sorted(range(len(subjects)), key=lambda i: -(subjects[i].weight or len(subjects[i].decl.variants)))
    loads = [0] * nb
    groups = [[] for _ in range(nb)]
    for i in order:
        k = min(range(nb), key=lambda j: (loads[j], j))
        groups[k].append(i)
        loads[k] += (subjects[i].weight or len(subjects[i].decl.variants)) + 4
    return [sorted(g) for g in groups if g]


def build_workspace(tag, subjects, nb=None, extra_deps="", derive_dep=None, extra_crates=None, opt=False):
    """Write the workspace for `subjects` under work/<tag>/ and build it. Returns
    (wsdir, [(batch_name, [subject indices], binary path)], build_failures) where build_failures is a
    list of (batch name, stderr) for batches that did not compile."""
    ws = os.path.join(WORK, tag)
    os.makedirs(ws, exist_ok=True)
    if nb is None:
        nb = max(1, min(NCPU * 2, (len(subjects) + 7) // 8))
    groups = _batches(subjects, nb)
    prefix = tag.replace("/", "_")
    names = []
    dep = derive_dep if derive_dep is not None else 'enum-tools = { path = "%s" }' % REPO
    for bi, g in enumerate(groups):
        bname = "%s_b%02d" % (prefix, bi)
        names.append(bname)
        bdir = os.path.join(ws, bname)
        os.makedirs(bdir, exist_ok=True)
        write_if_changed(os.path.join(bdir, "Cargo.toml"), CARGO_BATCH % (bname, bname, VERIF, dep + "\n" + extra_deps))
        src = ["// generated by /verif/lib/e3.py — do not edit"]
        for i in g:
            src.append(subjects[i].source())
        src.append("fn main() { ::driver::run_all(&[%s]); }" % ", ".join("&%s::SUBJECT" % subjects[i].sid for i in g))
        write_if_changed(os.path.join(bdir, "main.rs"), "\n".join(src) + "\n")
    for cname, (ctoml, csrc) in (extra_crates or {}).items():
        cdir = os.path.join(ws, cname)
        os.makedirs(cdir, exist_ok=True)
        write_if_changed(os.path.join(cdir, "Cargo.toml"), ctoml)
        write_if_changed(os.path.join(cdir, "lib.rs"), csrc)
        names.append(cname)
    # remove stale batch dirs
    for d in os.listdir(ws):
        p = os.path.join(ws, d)
        if os.path.isdir(p) and d.startswith(prefix + "_b") and d not in names:
            shutil.rmtree(p)
    wstoml = CARGO_WS % ", ".join('"%s"' % n for n in names)
    if opt:
        # optimised subjects (full 32-bit sweeps): overflow checks and debug assertions stay on
        wstoml = wstoml.replace("opt-level = 0", "opt-level = 3")
    write_if_changed(os.path.join(ws, "Cargo.toml"), wstoml)
    lock = os.path.join(ws, "Cargo.lock")
    if not os.path.exists(lock):
        write_if_changed(lock, repo_lock())
    tdir = os.path.join(TARGET, "e3opt" if opt else "e3")
    jobs = ["-j", "10"] if tag.startswith("thorough/") else []     # large thorough subjects: keep rustc's total memory in bounds
    p = run(["cargo", "build", "--offline", "--workspace", "--keep-going", "--target-dir", tdir, "--message-format=short"] + jobs, cwd=ws)
    if p.returncode != 0 and b"signal:" in p.stderr:
        # a compiler process was killed (out of memory, external kill): environmental, retry once with little parallelism
        log("a compiler process was killed by a signal; retrying the build with -j 3")
        p = run(["cargo", "build", "--offline", "--workspace", "--keep-going", "--target-dir", tdir, "--message-format=short", "-j", "3"], cwd=ws)
        if p.returncode != 0 and b"signal:" in p.stderr:
            raise MachineryError("compiler processes keep being killed by a signal (memory?):\n" + p.stderr.decode(errors="replace")[-2000:])
    failures = []
    out = []
    stderr = p.stderr.decode(errors="replace")
    for bi, g in enumerate(groups):
        bname = names[bi]
        binp = os.path.join(tdir, "debug", bname)   # (profile dev, possibly with opt-level 3)
        out.append((bname, g, binp))
    if p.returncode != 0:
        failed = set()
        for line in stderr.splitlines():
            if line.startswith("error: could not compile `"):
                failed.add(line.split("`")[1])
        if not failed:
            raise MachineryError("cargo build failed without naming a package:\n" + stderr[-6000:])
        for bname in sorted(failed):
            if bname == "driver" or bname.startswith("enum-tools") or bname not in names or bname in (extra_crates or {}):
                raise MachineryError("engine crate `%s` does not build:\n%s" % (bname, stderr[-6000:]))
            failures.append((bname, stderr))
    return ws, out, failures


def parse_lines(text):
    recs = []
    for line in text.splitlines():
        if len(line) < 2 or line[1] != " ":
            if line == "DONE":
                recs.append(("DONE", None))
            continue
        tag, rest = line[0], line[2:]
        if tag in ("V", "T", "M", "X", "B"):
            try:
                recs.append((tag, json.loads(rest)))
            except Exception:
                recs.append(("?", line))
        elif tag in ("S", "E", "P"):
            recs.append((tag, rest))
    return recs


def _limit_memory():
    # a generated iterator that never ends inside collect()/fold() must exhaust this process, not the machine
    import resource
    lim = 12 << 30
    resource.setrlimit(resource.RLIMIT_AS, (lim, lim))


def run_batch(binp, ids, timeout=3600, phases=None, budget=None, only=None):
    """Run one batch binary to completion, restarting after crashes. Returns dict with
    per-subject stats, violations, machinery messages, crashes and watchdog timeouts."""
    res = {"stats": {}, "violations": [], "machinery": [], "crashes": [], "timeouts": []}
    skip = []
    todo = list(ids)
    rounds = 0
    while True:
        rounds += 1
        if rounds > 60:
            res["machinery"].append({"msg": "batch %s keeps crashing (>60 restarts)" % binp})
            break
        cmd = [binp]
        if skip:
            cmd += ["--skip", ",".join(skip)]
        if phases:
            cmd += ["--phases", ",".join(phases)]
        if budget:
            cmd += ["--budget", str(int(budget))]
        if only:
            cmd += ["--only", ",".join(only)]
        try:
            p = subprocess.run(cmd, stdout=subprocess.PIPE, stderr=subprocess.PIPE, env=ENV, timeout=timeout, preexec_fn=_limit_memory)
        except subprocess.TimeoutExpired:
            res["machinery"].append({"msg": "batch %s timed out after %ds" % (binp, timeout)})
            break
        recs = parse_lines(p.stdout.decode(errors="replace"))
        timed_out = None
        slow = None
        cur = None
        phase = None
        done = False
        finished = set()
        for tag, val in recs:
            if tag == "S":
                cur, phase = val, None
            elif tag == "P":
                phase = val.split(" ", 1)[1] if " " in val else val
            elif tag == "E":
                finished.add(val)
                cur = None
            elif tag == "V":
                res["violations"].append(val)
            elif tag == "M":
                res["machinery"].append(val)
            elif tag == "T":
                res["stats"][val["id"]] = val
            elif tag == "X":
                timed_out = val
            elif tag == "B":
                slow = val
            elif tag == "DONE":
                done = True
        if done and p.returncode == 0:
            break
        if slow is not None and p.returncode == 4:
            # the exploration of one subject made progress but did not finish: the harness is too slow, no verdict
            res["machinery"].append({"msg": "subject %s: exploration not finished after %ss although calls kept returning (bounds too large for this subject)" % (slow["id"], slow["budget_s"])})
            skip = sorted(set(skip) | finished | {slow["id"]})
            continue
        if timed_out is not None and p.returncode == 3:
            res["timeouts"].append({"id": timed_out["id"], "phase": phase, "budget_s": timed_out["budget_s"], "bin": binp})
            skip = sorted(set(skip) | finished | {timed_out["id"]})
            if only or len(res["timeouts"]) >= 2:
                # one confirmed hang is a verdict; do not spend the budget again on every further subject of this batch
                res["abandoned_after_timeouts"] = True
                break
            continue
        if cur is None:
            res["machinery"].append({"msg": "batch %s exited %s without a running subject: %s" % (
                binp, p.returncode, p.stderr.decode(errors="replace")[-1500:])})
            break
        res["crashes"].append({"id": cur, "phase": phase, "returncode": p.returncode,
                               "stderr": p.stderr.decode(errors="replace")[-1500:]})
        # restart behind the crashing subject: everything finished so far is skipped too
        skip = sorted(set(skip) | finished | {cur})
    return res


def run_workspace(batches, phases=None, timeout=3600, budget=None):
    """Run all batch binaries in parallel; merge results. A subject that exceeded its wall-clock budget is run once more on its
    own with three times the budget: if it exceeds that too it is reported under "hangs" (a call that does not return), otherwise
    its results are merged normally."""
    merged = {"stats": {}, "violations": [], "machinery": [], "crashes": [], "timeouts": [], "hangs": []}
    with cf.ThreadPoolExecutor(max_workers=NCPU) as ex:
        futs = [ex.submit(run_batch, binp, ids, timeout, phases, budget) for (_n, ids, binp) in batches]
        for f in futs:
            r = f.result()
            merged["stats"].update(r["stats"])
            merged["violations"] += r["violations"]
            merged["machinery"] += r["machinery"]
            merged["crashes"] += r["crashes"]
            merged["timeouts"] += r["timeouts"]
            if r.get("abandoned_after_timeouts"):
                merged["abandoned"] = merged.get("abandoned", 0) + 1
    for t in merged["timeouts"][:3]:
        r = run_batch(t["bin"], [t["id"]], timeout, phases, budget=3 * (budget or 300), only=[t["id"]])
        if r["timeouts"]:
            merged["hangs"].append(dict(t, budget_s=r["timeouts"][0]["budget_s"], phase=r["timeouts"][0].get("phase") or t.get("phase")))
        else:
            merged["stats"].update(r["stats"])
            merged["violations"] += r["violations"]
            merged["machinery"] += r["machinery"]
            merged["crashes"] += r["crashes"]
    return merged
