"""E1 `xpand`: /repo's parser+generator compiled unmodified into a normal binary (DESIGN.md §2.1)."""
import os
import re
import subprocess

from common import ENV, REPO, TARGET, VERIF, WORK, MachineryError, log, repo_lock, run, write_if_changed
from e3 import Config

XDIR = os.path.join(VERIF, "engines", "xpand")
SEP = "\n\x1e\n"
_built = {}


def gen_mods():
    """Mirror the module list of /repo/src/lib.rs (so a new top-level module is picked up)."""
    lib = open(os.path.join(REPO, "src", "lib.rs")).read()
    out = ["// generated from /repo/src/lib.rs by lib/e1.py — do not edit"]
    pending_cfg = None
    for line in lib.splitlines():
        s = line.strip()
        m = re.match(r"^#\[cfg\((.*)\)\]\s*(pub(\(crate\))?\s+)?mod\s+(\w+)\s*;", s)
        if m:
            cfg, name = m.group(1), m.group(4)
        else:
            m = re.match(r"^(pub(\(crate\))?\s+)?mod\s+(\w+)\s*;", s)
            if m:
                cfg, name = pending_cfg, m.group(3)
            else:
                mc = re.match(r"^#\[cfg\((.*)\)\]\s*$", s)
                pending_cfg = mc.group(1) if mc else None
                continue
        pending_cfg = None
        p1 = os.path.join(REPO, "src", name, "mod.rs")
        p2 = os.path.join(REPO, "src", name + ".rs")
        path = p1 if os.path.exists(p1) else p2
        if cfg:
            out.append("#[cfg(%s)]" % cfg)
        out.append('#[path = "%s"]\nmod %s;' % (path, name))
    return "\n".join(out) + "\n"


def build(seam=False):
    """Build xpand against /repo's current sources. seam=True builds with --cfg enum_tools_verif."""
    key = "seam" if seam else "plain"
    if key in _built:
        return _built[key]
    write_if_changed(os.path.join(XDIR, "src", "mods.rs"), gen_mods())
    write_if_changed(os.path.join(XDIR, "Cargo.lock"), _lock())
    tdir = os.path.join(TARGET, "xpand-" + key)
    env = {}
    if seam:
        env["RUSTFLAGS"] = "--cfg enum_tools_verif"
    p = run(["cargo", "build", "--offline", "--release", "--target-dir", tdir], cwd=XDIR, env=env)
    exe = os.path.join(tdir, "release", "xpand")
    if p.returncode != 0 or not os.path.exists(exe):
        raise MachineryError("xpand (%s) does not build:\n%s" % (key, p.stderr.decode(errors="replace")[-6000:]))
    _built[key] = exe
    return exe


def _lock():
    """/repo's Cargo.lock (exact versions); cargo adds the local packages itself. If an xpand lock exists
    already and still pins the same versions, keep it (so cargo need not touch the index)."""
    cur = os.path.join(XDIR, "Cargo.lock")
    base = repo_lock()
    if os.path.exists(cur):
        have = open(cur).read()
        want = dict(re.findall(r'name = "([^"]+)"\nversion = "([^"]+)"', base))
        got = dict(re.findall(r'name = "([^"]+)"\nversion = "([^"]+)"', have))
        if all(got.get(k) == v for k, v in want.items() if k in ("syn", "quote", "proc-macro2", "proc-macro-error-attr")):
            return have
    return base


def setup():
    build(False)


def expand_many(decls, seam=False, mode="expand", env=None):
    """decls: list of source texts (derive inputs). Returns list of (status, text)."""
    exe = build(seam)
    inp = SEP.join(decls) + SEP
    e = dict(ENV)
    if env:
        e.update(env)
    p = subprocess.run([exe, mode], input=inp.encode(), stdout=subprocess.PIPE, stderr=subprocess.PIPE, env=e, timeout=3600)
    if p.returncode != 0:
        raise MachineryError("xpand %s failed: %s" % (mode, p.stderr.decode(errors="replace")[-2000:]))
    out = []
    for rec in p.stdout.decode(errors="replace").split("\n\x1e\n"):
        if not rec.strip():
            continue
        st, _, body = rec.partition("\n")
        out.append((st.strip(), body))
    if len(out) != len(decls):
        raise MachineryError("xpand returned %d records for %d declarations" % (len(out), len(decls)))
    return out


def cfg_from_text(t, zz=True):
    """'as_str:table,iter:auto,range,into' -> Config (nameable items named zz_<feature> like in xpand)."""
    from e3 import NAMEABLE
    feats = []
    for part in t.split(","):
        if not part:
            continue
        f, _, mode = part.partition(":")
        p = {}
        if mode:
            p["mode"] = mode
        if zz and f in NAMEABLE:
            p["name"] = "zz_" + f
        feats.append((f, p))
    return Config(feats)


def space(archetype_src, low=12, high=0, tag="arch"):
    """Run the configuration-space enumeration for one archetype. Returns parsed dict."""
    exe = build(False)
    d = os.path.join(WORK, "e1")
    os.makedirs(d, exist_ok=True)
    f = os.path.join(d, tag + ".rs")
    with open(f, "w") as fh:
        fh.write(archetype_src)
    p = subprocess.run([exe, "space", f, "--low", str(low), "--high", str(high)], stdout=subprocess.PIPE,
                       stderr=subprocess.PIPE, env=ENV, timeout=7200)
    txt = p.stdout.decode(errors="replace")
    if p.returncode != 0 or not txt.rstrip().endswith("END"):
        raise MachineryError("xpand space failed (%s): %s" % (p.returncode, (p.stderr.decode(errors="replace") + txt)[-3000:]))
    res = {"classes": {}, "reject": [], "unparsed": [], "dup": [], "open": [], "infer": [], "leak": [], "helpers": {}}
    for line in txt.splitlines():
        c = line.split("\t")
        if c[0] == "SPACE":
            for kv in c[1:]:
                k, _, v = kv.partition("=")
                res["n_" + k if k in ("rejected", "unparsed") else k] = (v == "true") if v in ("true", "false") else int(v)
        elif c[0] in ("REJECT", "UNPARSED", "DUP", "OPEN", "INFER", "LEAK"):
            res[c[0].lower()].append((c[1], c[2] if len(c) > 2 else ""))
        elif c[0] == "HELPER":
            res["helpers"][c[1]] = c[2]
        elif c[0] == "CLASS":
            item, kind, h, count, rep = c[1], c[2], c[3], int(c[4]), c[5]
            text = c[6] if len(c) > 6 else ""
            res["classes"].setdefault(item, {}).setdefault(kind, []).append(
                {"hash": h, "count": count, "rep": rep, "text": text})
    return res


# ------------------------------------------------------------------ token-level conformance (DESIGN.md §12.6)

_nightly = {}


def nightly_dylib():
    """/repo's derive built by the nightly toolchain (needed by `rustc +nightly -Zunpretty=expanded`)."""
    if "so" in _nightly:
        return _nightly["so"]
    import json as _json
    import e2
    e2.build_anchor()
    adir = os.path.join(VERIF, "engines", "anchor") if REPO == "/repo" else os.path.join(WORK, "anchor-alt")
    tdir = os.path.join(TARGET, "anchor-nightly")
    p = run(["cargo", "+nightly", "build", "--offline", "--target-dir", tdir, "--message-format=json"], cwd=adir)
    so = None
    for line in p.stdout.decode(errors="replace").splitlines():
        try:
            m = _json.loads(line)
        except Exception:
            continue
        if m.get("reason") == "compiler-artifact" and m.get("target", {}).get("name") in ("enum_tools", "enum-tools"):
            for f in m.get("filenames", []):
                if f.endswith(".so"):
                    so = f
    if p.returncode != 0 or so is None:
        raise MachineryError("nightly build of the derive failed: " + p.stderr.decode(errors="replace")[-2000:])
    _nightly["so"] = so
    return so


def real_expansion(decl_text):
    """The derive's output as produced inside rustc (nightly, -Zunpretty=expanded) for
    `decl_text` = attributes + enum (without a derive attribute). Returns text or raises."""
    so = nightly_dylib()
    d = os.path.join(WORK, "e1", "unpretty-%d-%d" % (os.getpid(), abs(hash(decl_text)) % 10**9))
    os.makedirs(d, exist_ok=True)
    src = os.path.join(d, "case.rs")
    with open(src, "w") as f:
        f.write("use enum_tools::EnumTools;\n#[derive(EnumTools)]\n" + decl_text + "\n")
    p = subprocess.run(["rustc", "+nightly", "--edition", "2021", "-Zunpretty=expanded", "--crate-type", "lib", "--extern", "enum_tools=" + so, src],
                       stdout=subprocess.PIPE, stderr=subprocess.PIPE, env=ENV)
    import shutil
    shutil.rmtree(d, ignore_errors=True)
    if p.returncode != 0:
        raise MachineryError("rustc -Zunpretty=expanded failed: " + p.stderr.decode(errors="replace")[-1500:])
    return p.stdout.decode(errors="replace")


def conformance(decl_texts):
    """Compare E1's expansion (proc_macro2 fallback) with the compiler-backed expansion, token by token
    after normalisation. Returns list of (ok, detail)."""
    import concurrent.futures as cf
    e1_out = expand_many(decl_texts)
    nightly_dylib()
    with cf.ThreadPoolExecutor(max_workers=16) as ex:
        reals = list(ex.map(real_expansion, decl_texts))
    # token level: the derive's output is everything after the enum item itself in the expanded file
    flat_in = []
    for (st, body), r in zip(e1_out, reals):
        flat_in.append(body if st == "OK" else "")
        flat_in.append(r)
    fl = expand_many([t if t.strip() else "x" for t in flat_in], mode="flat")
    for i in range(len(decl_texts)):
        st, body = fl[2 * i + 1]
        if st != "OK":
            continue
        toks = body.split("\n")
        cut = None
        for j in range(len(toks) - 2):
            if toks[j] == "enum" and toks[j + 1] == "E" and toks[j + 2] == "{":
                depth = 0
                for k in range(j + 2, len(toks)):
                    if toks[k] == "{":
                        depth += 1
                    elif toks[k] == "}":
                        depth -= 1
                        if depth == 0:
                            cut = k + 1
                            break
                break
        fl[2 * i + 1] = (st, "\n".join(toks[cut:]) if cut is not None else body)
    res = []
    for i in range(len(decl_texts)):
        a, b = fl[2 * i], fl[2 * i + 1]
        if e1_out[i][0] != "OK":
            res.append((False, "E1 did not accept: %s" % e1_out[i][1][:200]))
            continue
        if a[0] != "OK" or b[0] != "OK":
            res.append((False, "flatten failed: %s / %s" % (a[1][:200], b[1][:200])))
            continue
        ta, tb = a[1].split("\n"), b[1].split("\n")
        if ta == tb:
            res.append((True, len(ta)))
        else:
            k = next((j for j in range(min(len(ta), len(tb))) if ta[j] != tb[j]), min(len(ta), len(tb)))
            res.append((False, "token %d differs: E1 …%s… vs rustc …%s…" % (k, " ".join(ta[max(0, k - 6):k + 4]), " ".join(tb[max(0, k - 6):k + 4]))))
    return res
