"""Manifest entries for checks beyond the first E3 batch (imported by bin/mkmanifest)."""

E1_NOTE = ("Trusted base: rustc/cargo 1.95; E1 runs /repo's unmodified parser+generator sources (included by #[path]) under "
           "proc_macro2's fallback with a vendored proc-macro-error 1.0.4 carrying one added function; E1 findings are candidates "
           "confirmed by the real toolchain before being reported; closure-text canonicalisation assumes Rust compiles items "
           "modularly (guarded by a scan for inference-sensitive method calls and by direct runs of all configurations with <= k features).")

CHECKS = {
    "C09": dict(engine="E1 xpand + E3", design="§5 C09", note=E1_NOTE,
                technique="explicit-state enumeration of the legal configuration space with the real generator in-process; closure-text classes re-run on the real derive; all configurations with <=k features run directly; transcript hashes compared pairwise per item",
                text="All legal feature/mode configurations (quick: on/off features thinned to <=2 or >=11 enabled; thorough: all 4.7M) are expanded for 3 "
                     "archetypes; per item the classes of closure text are formed and one representative per class is run with the real derive on the "
                     "family enums against the configuration-independent reference model; additionally transcripts of each item are compared across "
                     "all configurations of one enum (no hand-written expectation)."),
    "C10": dict(engine="E1 xpand + E2 + E3", design="§5 C10", note=E1_NOTE,
                technique="explicit-state enumeration of the configuration space (accepted / no duplicate definition / closed references) + rustc judging every distinct local context, every documented mode/name/vis/struct_name value, full-minus-k sets, and all attribute splittings",
                text="Every legal configuration is accepted by the real generator; each distinct local context, each documented parameter value and the "
                     "full feature set minus <=1 (thorough: <=2) features compile with the real toolchain on gapless/with-holes enums in i8,u16,i64; "
                     "all configurations with <=2 (3) features are built and run; splitting over attributes gives a textually identical expansion. "
                     "Known finding D5: iter(mode=\"match\")."),
}

ENGINES = [
    {"name": "E1 xpand", "path": "engines/xpand, engines/vendor/proc-macro-error, lib/e1.py",
     "serves_properties": ["C09", "C10", "C15", "C17", "C19"],
     "kind_free_text": "/repo's parser and generator compiled unmodified (by #[path]) into a normal binary; configuration-space enumeration, item splitter, closure classes"},
]
