"""Manifest entries for checks beyond the first E3 batch (imported by bin/mkmanifest)."""

E1_NOTE = ("Trusted base: rustc/cargo 1.95; E1 runs /repo's unmodified parser+generator sources (included by #[path]) under "
           "proc_macro2's fallback with a vendored proc-macro-error 1.0.4 carrying one added function; E1 findings are candidates "
           "confirmed by the real toolchain before being reported; closure-text canonicalisation assumes Rust compiles items "
           "modularly (guarded by a scan for inference-sensitive method calls and by direct runs of all configurations with <= k features).")

CHECKS = {
    "C09": dict(engine="E1 xpand + E3", design="§5 C09", note=E1_NOTE,
                technique="explicit-state enumeration of the legal configuration space with the real generator in-process; closure-text classes re-run on the real derive; all configurations with <=k features run directly; transcript hashes compared pairwise per item",
                text="All legal feature/mode configurations (quick: on/off features thinned to <=2 or >=11 enabled; thorough: all 4.7M) are expanded for 4 "
                     "archetypes (gapless, few/large holes, many runs); per item the classes of closure text are formed and one representative per class is run with the real derive on the "
                     "family enums against the configuration-independent reference model; additionally transcripts of each item are compared across "
                     "all configurations of one enum (no hand-written expectation)."),
    "C10": dict(engine="E1 xpand + E2 + E3", design="§5 C10", note=E1_NOTE,
                technique="explicit-state enumeration of the configuration space (accepted / no duplicate definition / closed references) + rustc judging every distinct local context, every documented mode/name/vis/struct_name value, full-minus-k sets, and all attribute splittings",
                text="Every legal configuration is accepted by the real generator; each distinct local context, each documented parameter value and the "
                     "full feature set minus <=1 (thorough: <=2) features compile with the real toolchain on gapless/with-holes enums in i8,u16,i64; "
                     "all configurations with <=2 (3) features are built and run; splitting over attributes gives a textually identical expansion; every feature "
                     "compiles on enums named like any identifier the generated code introduces itself (52 names: all capital letters, usual generic names). "
                     "Known finding D5: iter(mode=\"match\")."),
}

E2_NOTE = ("Trusted base: rustc 1.95 as the judge (each case is its own crate compiled to an object file with -C link-dead-code so that "
           "constants of unused items are evaluated), the Python case generators and their reference predicates. Bounds: the finite "
           "menus/grammars listed in DESIGN.md §5; why a case was rejected (derive vs rustc) is recorded but not asserted.")
E3_NOTE = ("Trusted base: rustc/cargo 1.95, the Python generator of enum declarations (its discriminant evaluator is cross-checked against "
           "the compiler's `v as repr` in every run), the driver's Vec reference model.")
CHECKS.update({
    "C11": dict(engine="E3 subjects+driver", design="§5 C11", note=E3_NOTE,
                technique="bounded-exhaustive grammar enumeration of in-domain declarations (implicit/explicit mixes to n<=3/4 over a boundary value set, 80+ literal spelling styles, sizes, foreign attributes) derived by the real macro and checked at run time against `v as repr`",
                text="Every declaration of the grammar is in the documented domain by construction; each must compile with the real derive and at run time "
                     "into/try_from/iter/MIN/MAX/next/as_str must agree with the compiler's discriminants (reference evaluator cross-checked per subject); "
                     "also: the whole 8-bit types with early/late holes under every feature, 67 enum names, and declarations produced by 9 forms of macro_rules! macros."),
    "C12": dict(engine="E2 rustc oracle", design="§5 C12", note=E2_NOTE,
                technique="bounded-exhaustive mutation grammar over declarations (item kinds, fields, discriminant expression grammar to depth 2 in each position, out-of-i64 values, repr forms, 65535+ variants), every case judged by rustc",
                text="Each case breaks exactly one documented rule starting from a base that is checked to compile; the case must fail to compile. "
                     "Exhaustive over the stated menu."),
    "C13": dict(engine="E2 rustc oracle", design="§5 C13", note=E2_NOTE,
                technique="bounded-exhaustive mutation menu over attribute contents (unknown features/parameters closedness matrix, duplicates, bad mode/vis values, wrong kinds, contradictions, variant-level attributes), every case judged by rustc",
                text="Each case is one change away from a legal parent (parents are checked to compile) on a gapless and a with-holes enum, in one or "
                     "several attributes (variant attributes: invalid one first / last / in the middle of several), contradictions also on ten larger shapes; every mutated case must fail to compile."),
    "C14": dict(engine="E2 rustc oracle", design="§5 C14", note=E2_NOTE,
                technique="exhaustive enumeration of all n! declaration orders (n<=3/4) x implicit/explicit patterns x 15 name assignments x sorted forms; every case expanded by the real parser in-process, rustc accept/reject (quick: fixed 1-in-6 slice + every disagreement; thorough: all) compared with the reference predicate",
                text="compiles <=> strictly ascending discriminants (sorted(value)) / strictly ascending byte-wise names after renaming (sorted(name)) / both; "
                     "without sorted every order compiles. Windows: small i8/u8 values and the i64 limits."),
})

CHECKS.update({
    "C17": dict(engine="E1 xpand (seam build)", design="§5 C17, §6", note="Trusted base: the seam map in /repo/src/verif_seam.rs (insertion-ordered, "
                "iteration order chosen by the explorer) replaces std HashMap in the three parser modules under --cfg enum_tools_verif; sources of "
                "per-process state outside the seam are only caught by the textual audit and by the supplementary fresh-process replication (sampling).",
                technique="exhaustive exploration of all iteration orders (n! per map iteration) of every hash map of the real parser via a controlled scheduler, prefix-replay DFS; replayed schedules asserted deterministic",
                text="For every declaration of the family (all n! declaration orders for n<=3/4, all subsets of a 6-window up to n=5/6, 7- and 8-variant enums in "
                     "thorough, truncation-alias sets, ascending declarations; full feature sets in table/match modes, sorted(value)/sorted(name,value), split "
                     "attributes, name/vis parameters) every assignment of iteration orders to the parser's map iterations is executed on the real "
                     "parser+generator (maps with more than 7 entries: a fixed O(n^2) family of permutations, reported as capped); exactly one distinct "
                     "expansion text is required; the same schedule must reproduce; the same declaration must expand identically after different histories "
                     "of earlier expansions in the process (forward, reverse, and - for a family of same-named enums of different shape - alone)."),
    "C18": dict(engine="E3 subjects+driver", design="§5 C18", note=E3_NOTE,
                technique="exhaustive enumeration of all n! declaration orders x all admissible reprs per value set; per-item transcript hashes compared within each value set and against the reference model",
                text="Every value set of size <=3 (quick) / <=4 from a 6-window plus sets touching the i8/u8/i16/u16/(i32/u32/i64) limits and 300-value sets, all "
                     "declaration orders (large sets: two), every repr that can hold it, full feature set in table, match and auto modes; names are attached to "
                     "values. All subjects of a value set must produce identical transcripts; limit sets are explored a second time among the >=64-bit reprs with the unclipped argument neighbourhood."),
})

CHECKS.update({
    "C15": dict(engine="E2 rustc oracle + E1 xpand + E3", design="§5 C15", note=E2_NOTE + " Requests that no Rust program could honour (an iterator struct more visible "
                "than its item type: E0446) are excluded from the matrix.",
                technique="exhaustive matrix of access probes (11 nameable features x vis values x default/custom name x enum visibilities x 4 probe sites incl. a sibling crate) judged by rustc against Rust's visibility rule; helper items enumerated over the whole configuration space (E1) and probed; 'user defines every unrequested name/trait' conflict probes; all-renamed subjects run",
                text="Each generated item must be reachable under the requested name exactly at the sites its requested visibility allows (positive and negative "
                     "probes, negative ones must fail with a privacy/unresolved error), the default name must not exist after renaming, helper items discovered by "
                     "E1 must be private, a user must be able to define every default name and implement every trait that was not requested, and dependants must "
                     "work when every item is renamed (built and run); default struct names are EnumName+Iter/Names for 25 enum names incl. raw and non-ASCII identifiers."),
    "C16": dict(engine="E3 subjects+driver + E2 + E1 cover", design="§5 C16", note=E3_NOTE + " Primitive type names (str, usize, ...) are language built-ins, not prelude/core "
                "items, and are not shadowed. Edition-2015 user crates are outside the statement.",
                technique="finite menu of hostile scopes (no_std rlib, no_implicit_prelude, ~70 prelude/core names shadowed all-at-once and singly in three guises, 19 shadowed macros) x configuration class cover; compiled, run, transcripts compared with the plain scope",
                text="Every distinct generated item text (closure-class cover from E1) is placed in every hostile scope, must compile with the real derive and "
                     "produce per-item transcripts identical to the plain scope and to the reference model; no_std subjects are an rlib driven from a std binary. Enums: i8/u8/u16/usize/isize, a 20-run enum, enums named like generics; plus a scope with two sibling derives."),
    "C19": dict(engine="E2 rustc oracle + E1 xpand", design="§5 C19", note=E2_NOTE,
                technique="signature ascription probes (const/static contexts, fn-pointer types, associated types, trait bounds) for every feature x mode x shape x 12 reprs judged by rustc; explicit-state enumeration of all configurations showing exactly one signature class per user-visible item",
                text="into usable in const/static/const-fn contexts, MIN/MAX associated constants of type E, Option<Self>/Result<Self,()>/&'static str return types, "
                     "iterator structs implementing the four iterator traits with the documented item types - for all features, modes, gapless/with-holes and "
                     "12 reprs, every documented vis value, and a shape family (full 8-bit types, type limits, 20 runs, 300 variants); at token level no user-visible item has a mode- or shape-dependent signature."),
})

CHECKS.update({
    "C02": dict(engine="E4 checked_derive + E3 driver + Miri", design="§5 C02, §2.4",
                note="Trusted base: the E4 rewrite pass (token-level: transmute -> declared-discriminant lookup by the compiler's `E::V as repr`, unwrap_unchecked -> expect, "
                     "MaybeUninit -> CheckedUninit; an unknown call inside an unsafe block makes the monitored build unavailable = exit 2, never a verdict); Miri "
                     "(nightly) as an interpreter with UB detection over the executions the driver enumerates - the coverage statement is the enumeration, not a proof.",
                technique="the bounded exhaustive drivers of C01-C08 (all 8/16-bit arguments, string neighbourhoods, all variant pairs, iterator operation histories) executed on expansions with a monitor on every unchecked assumption, and on the unmodified derive under the Miri interpreter",
                text="Every transmute, unwrap_unchecked and assume_init of the generated code is checked at the moment it executes, for every argument / pair / history the "
                     "drivers enumerate, in six mode sets that reach every unsafe site, on F(2,2,2)+L+P+A+R+D (quick) / +F(3,3,3)+R+M, all reprs (thorough, also an optimised build); "
                     "every returned value must carry a declared discriminant. A Miri slice (quick: the 3 archetypes x mode sets; thorough: +F(1,2,1) x 4 "
                     "reprs) covers unsafe operations the monitor list does not know."),
})

HOOKS = {
    "guard": "enum_tools_verif",
    "enable": "RUSTFLAGS=\"--cfg enum_tools_verif\" when lib/e1.py builds engines/xpand for C17 (target/xpand-seam); every other engine builds /repo with the guard off",
    "baseline_off_cmd": "cd /repo && cargo test --workspace --no-fail-fast --offline",
    "source_commits": ["6400e03"],
    "add_only": True,
}

ENGINES_EXTRA = [
    {"name": "E4 checked_derive", "path": "engines/checked_derive, engines/verif_rt, lib/e4.py, lib/props_ub.py", "serves_properties": ["C02"],
     "kind_free_text": "proc-macro that runs /repo's parser+generator (included by #[path]) and rewrites every unchecked assumption into a monitor; plus cargo +nightly miri run of the same drivers"},
]

ENGINES = [
    {"name": "E1 xpand", "path": "engines/xpand, engines/vendor/proc-macro-error, lib/e1.py",
     "serves_properties": ["C09", "C10", "C15", "C17", "C19"],
     "kind_free_text": "/repo's parser and generator compiled unmodified (by #[path]) into a normal binary; configuration-space enumeration, item splitter, closure classes"},
]
ENGINES += ENGINES_EXTRA
