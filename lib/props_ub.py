"""C02: no undefined behaviour — (1) the exhaustive drivers of C01–C08 on `EnumToolsChecked` expansions
(every unchecked assumption turned into a monitor), (2) the same drivers under Miri on the unmodified derive."""
import json
import os
import shutil
import subprocess

import catalogue
import e3
import e4
import enums
from common import ENV, NCPU, REPO, TARGET, VERIF, WORK, MachineryError, Result, log, repo_lock, run, write_if_changed
from e3 import Config, Subj
from e3check import explore
from enums import ALL_REPRS, family_F, family_H, family_L, make_decl


def mode_sets(gapless):
    """mode assignments that together reach every unchecked-assumption site of the generator"""
    T = {"as_str": "table", "from_str": "table", "FromStr": "table", "iter": "table"}
    M = {"as_str": "match", "from_str": "match", "FromStr": "match", "iter": "next_and_back"}
    out = [("auto", catalogue.full_config(gapless, {})), ("table", catalogue.full_config(gapless, T)),
           ("match-nab", catalogue.full_config(gapless, M)),
           ("inline", catalogue.full_config(gapless, {"iter": "table_inline", "as_str": "table", "from_str": "match"}, drop=("range",)))]
    # the run table without offsets (nothing requests them)
    out.append(("plain", Config(["next", "next_back", "try_from", "TryFrom", "MIN", "MAX", "into"])))
    if gapless:
        out.append(("range", catalogue.full_config(True, {"iter": "range", "as_str": "table", "from_str": "table"})))
    return out


def ub_subjects(tier, derive_use, miri=False):
    subs = []
    if miri:
        decls = [make_decl("i8", [3, 4, 5, 6], salt=1), make_decl("i8", [-10, -5, -4, 3], salt=2), make_decl("u64", [1, 2, 9], salt=3)]
        bounds = dict(x1_depth=1, x2_extra=0, x2_cap=3, range_x1_depth=0, range_x2_extra=0, consumers=False, light=True)
        if tier == "thorough":
            for r in ["i8", "u16", "i64", "u128"]:
                decls += family_F(r, 1, 2, 1, renames=True)
            bounds = dict(x1_depth=1, x2_extra=1, x2_cap=4, range_x1_depth=0, range_x2_extra=0, consumers=False, light=True)
    elif tier == "quick":
        decls = []
        for r in ("i8", "u8", "i64", "u128"):
            decls += family_F(r, 2, 2, 2)
        for r in ("i8", "u8", "i16", "u64"):
            decls += family_L(r)
        for r in ("usize", "isize", "i64"):
            decls += enums.family_P(r)
        for r in ("i16", "u64"):
            decls += enums.family_A(r)
        decls += enums.family_D("i8", 6, "zero", min_n=4)
        for r in ("i8", "u16", "u64"):
            decls += enums.family_R(r)      # many runs (seed C02-r6m2: a search over the run table that is only generated for >= 16 runs)
        bounds = dict(x1_depth=2, x2_extra=2, x2_cap=6, range_x1_depth=1, range_x2_extra=1)
    else:
        decls = []
        for r in ALL_REPRS:
            decls += family_F(r, 2, 2, 2)
        for r in ("i8", "i64"):
            decls += family_F(r, 3, 3, 3)
        for r in ALL_REPRS:
            decls += family_L(r)
        for r in ("i8", "u16", "i32", "u64"):
            decls += enums.family_R(r) + enums.family_A(r) + enums.family_M(r, 3)
        for r in ("i8", "u8", "i64"):
            decls += enums.family_D(r, 7, "zero")
        for r in ("i32", "u32", "i64", "u64", "i128", "u128", "isize", "usize"):
            decls += enums.family_P(r)
        # (the 65534-variant enums of family H run natively in C01/C03/C05/C06 thorough: a false unchecked assumption there
        #  aborts the debug build or yields an undeclared discriminant, both of which those checks report)
        bounds = dict(x1_depth=2, x2_extra=2, x2_cap=6, range_x1_depth=1, range_x2_extra=1)
    for i, d in enumerate(decls):
        n = len(d.variants)
        big = n > 64
        huge = n > 1000
        for lab, cfg in mode_sets(d.gapless):
            if cfg is None or (huge and lab == "inline"):
                continue
            if tier == "quick" and not miri and ((d.tag.get("family", "").startswith("F(") and d.repr in ("u8", "u128")) or d.tag.get("family", "").startswith("D(")) and lab in ("auto", "inline", "range"):
                continue    # quick: all six mode sets on i8/i64, the three table/match/plain sets on u8/u128
            b = dict(bounds)
            if big:
                b.update(x1_depth=1, x2_extra=0, x2_cap=2, range_x1_depth=1, range_x2_extra=0, range_pair_step=977 if not huge else 40000003)
            elif n > 6:
                b.update(range_x1_depth=1)
            subs.append(Subj("u%05d_%s" % (i, lab.replace("-", "_")), d, cfg, bounds=b, derive_use=derive_use,
                             sweep_full=not miri, weight=4000 if huge else (80 if big else None)))
    return subs, decls


def miri_run(res, tier):
    """The unmodified derive, the same drivers, interpreted by Miri (UB detection on every execution the drivers enumerate)."""
    subs, decls = ub_subjects(tier, "use ::enum_tools::EnumTools;", miri=True)
    nb = len(subs) if tier == "quick" else NCPU * 2
    ws = os.path.join(WORK, tier, "c02miri")
    os.makedirs(ws, exist_ok=True)
    groups = e3._batches(subs, nb)
    names = []
    for bi, g in enumerate(groups):
        bname = "%s_c02miri_b%02d" % (tier, bi)
        names.append(bname)
        bdir = os.path.join(ws, bname)
        os.makedirs(bdir, exist_ok=True)
        write_if_changed(os.path.join(bdir, "Cargo.toml"), e3.CARGO_BATCH % (bname, bname, VERIF, 'enum-tools = { path = "%s" }' % REPO))
        src = [subs[i].source() for i in g]
        src.append("fn main() { ::driver::run_all(&[%s]); }" % ", ".join("&%s::SUBJECT" % subs[i].sid for i in g))
        write_if_changed(os.path.join(bdir, "main.rs"), "\n".join(src) + "\n")
    for d in os.listdir(ws):
        if os.path.isdir(os.path.join(ws, d)) and d not in names:
            shutil.rmtree(os.path.join(ws, d))
    write_if_changed(os.path.join(ws, "Cargo.toml"), e3.CARGO_WS % ", ".join('"%s"' % n for n in names))
    if not os.path.exists(os.path.join(ws, "Cargo.lock")):
        write_if_changed(os.path.join(ws, "Cargo.lock"), repo_lock())
    tdir = os.path.join(TARGET, "miri")
    env = dict(ENV)
    env["MIRIFLAGS"] = "-Zmiri-disable-isolation -Zmiri-ignore-leaks"
    import concurrent.futures as cf

    def one(bname):
        p = subprocess.run(["cargo", "+nightly", "miri", "run", "--offline", "-q", "-p", bname, "--target-dir", tdir],
                           cwd=ws, env=env, stdout=subprocess.PIPE, stderr=subprocess.PIPE, timeout=5400)
        return bname, p.returncode, p.stdout.decode(errors="replace"), p.stderr.decode(errors="replace")
    # cargo serialises the shared dependency build on the target-dir lock; the interpretations run in parallel
    with cf.ThreadPoolExecutor(max_workers=NCPU) as ex:
        results = list(ex.map(one, names))
    by_id = {s.sid: s for s in subs}
    done = 0
    for bname, rc, so, se in results:
        recs = e3.parse_lines(so)
        cur, phase = None, None
        finished = False
        for tag, val in recs:
            if tag == "S":
                cur, phase = val, None
            elif tag == "P":
                phase = val
            elif tag == "E":
                cur = None
                done += 1
            elif tag == "T":
                res.states += val["states"]
                res.transitions += val["transitions"]
                res.nontrivial_count += val["nontrivial"]
            elif tag == "V":
                s = by_id.get(val.get("id"))
                res.violation({"kind": "miri-run:" + val["kind"], "call": val["call"], "config": s.cfg.describe() if s else None,
                               "repr": s.decl.repr if s else None}, {"expected": val["expected"], "got": val["got"], "subject": s.describe() if s else None},
                              {"repro.rs": s.standalone() + "fn main() {}\n"} if s else None)
            elif tag == "M":
                res.machinery_error("miri batch %s: %s" % (bname, json.dumps(val)[:500]))
            elif tag == "DONE":
                finished = True
        if "Undefined Behavior" in se or "error: unsupported operation" in se:
            s = by_id.get(cur)
            ub_line = next((l for l in se.splitlines() if "Undefined Behavior" in l or "unsupported operation" in l), "")
            res.violation({"kind": "miri-undefined-behaviour", "phase": phase, "config": s.cfg.describe() if s else None,
                           "repr": s.decl.repr if s else None, "what": ub_line[:200],
                           "variants": [[x.ident, x.value] for x in s.decl.variants][:16] if s else None},
                          {"stderr": se[-3000:], "subject": s.describe() if s else cur},
                          {"repro.rs": (s.standalone() if s else "") + "fn main() {}\n"})
            res.outcome("miri:UB")
        elif rc != 0 or not finished:
            res.machinery_error("miri batch %s exited %s: %s" % (bname, rc, se[-1500:]))
    res.validated += done
    res.outcome("miri:subjects-interpreted", done)
    res.extra["miri"] = {"subjects": len(subs), "finished": done, "flags": env["MIRIFLAGS"]}
    return subs


def c02(tier):
    res = Result("C02", tier, "the exhaustive drivers of C01-C08 (argument sweeps, variant pairs, iterator operation histories) executed (1) on expansions whose every unchecked "
                               "assumption is replaced by a monitor (EnumToolsChecked) and (2) on the unmodified derive under the Miri interpreter")
    e4.prepare()
    subs, decls = ub_subjects(tier, e4.DERIVE_USE)
    merged = explore(res, "%s/c02" % tier, subs, derive_dep=e4.DEPS, derive_extern=None)
    # A subject that does not build with the CHECKED derive is a violation only if it does not build with the REAL derive either;
    # otherwise the rewrite pass could not handle the expansion (machinery, never a verdict).
    import e2
    dnc = [v for v in res.violations if v["key"].get("kind") == "does-not-compile" and "VERIF-E4-UNAVAILABLE" not in json.dumps(v)]
    if dnc:
        by_id = {s.sid: s for s in subs}
        todo = [v for v in dnc if v["detail"].get("subject", {}).get("id") in by_id]
        real = e2.compile_many([{"src": by_id[v["detail"]["subject"]["id"]].standalone() + "fn main() {}\n", "crate_type": "bin"} for v in todo])
        for v, rv in zip(todo, real):
            if rv.ok:
                v["key"]["kind"] = "VERIF-E4-UNAVAILABLE (the real derive compiles this subject; the checked rewrite does not)"
    # E4 unavailable (unknown unsafe operation / rewrite failure) => machinery, never a verdict
    unavailable = [v for v in res.violations if "VERIF-E4-UNAVAILABLE" in json.dumps(v)]
    if unavailable:
        res.violations = [v for v in res.violations if v not in unavailable]
        res.machinery_error("the monitored build is unavailable for %d subjects (unknown operation in an unsafe block): %s" % (
            len(unavailable), json.dumps(unavailable[0]["detail"])[:600]))
    nmon = len(subs)
    res.extra["monitored_subjects"] = nmon
    if tier == "thorough":
        # the same monitored drivers on OPTIMISED subjects (overflow wraps instead of panicking only if checks were compiled out;
        # here they stay on, but inlining/const-propagation of the generated code differs from the debug build)
        osubs, _ = ub_subjects("quick", e4.DERIVE_USE)
        for s_ in osubs:
            s_.sid = "o" + s_.sid[1:]
        explore(res, "%s/c02opt" % tier, osubs, derive_dep=e4.DEPS, opt=True)
        res.extra["optimised_monitored_subjects"] = len(osubs)
    msubs = [] if os.environ.get("VERIF_NO_MIRI") else miri_run(res, tier)
    from props_e3 import family_desc
    res.family = family_desc(decls)
    res.rule = ("states/transitions = explorer states and calls of the monitored run plus those interpreted by Miri; every returned enum value is checked to be a "
                "declared discriminant, every transmute/unwrap_unchecked/assume_init is monitored (run 1) or interpreted with UB detection (run 2); "
                "non-trivial as in C01-C08")
    res.bounds = {"mode_sets": ["auto", "table", "match+next_and_back", "table_inline", "range (gapless)"],
                  "monitors": ["transmute -> declared-discriminant lookup", "unwrap_unchecked -> expect", "MaybeUninit -> CheckedUninit"]}
    for s in subs[:2] + msubs[:2]:
        res.sample(s.describe())
    return res.finish()


CHECKS = {"C02": c02}
