"""Shared body of the E3-based checks: build subjects, bisect compile failures, run, aggregate."""
import json
import os
import shutil

import e2
import e3
import replay
from common import TARGET, WORK, MachineryError, log


def compile_failures(subjects, idxs, derive_extern=None, use_cache=True):
    """Judge each subject of a failing batch on its own with E2. Returns {index: Verdict} for the
    subjects that do not compile."""
    rlib = e2.driver_rlib()
    if rlib is None:
        raise MachineryError("driver rlib not found for bisecting a failing batch")
    cases = []
    for i in idxs:
        src = "#![allow(warnings)]\n" + subjects[i].source() + "\n"
        ext = {"driver": rlib}
        if derive_extern:
            ext.update(derive_extern)
        cases.append({"src": src, "externs": ext, "crate_type": "lib"})
    if use_cache:
        verdicts = e2.compile_many(cases)
    else:
        verdicts = [e2.compile_one(c["src"], externs=c["externs"], crate_type="lib", use_cache=False) for c in cases]
    return {i: v for i, v in zip(idxs, verdicts) if not v.ok}


def explore(res, tag, subjects, phases=None, kind_to_key=None, derive_dep=None, derive_extern=None,
            extra_deps="", timeout=3600, keep=True, extra_crates=None, opt=False):
    """Build + run `subjects`; feed everything into `res` (common.Result). Returns the merged raw
    result (stats per subject id etc.)."""
    by_id = {s.sid: s for s in subjects}
    assert len(by_id) == len(subjects), "duplicate subject ids"
    active = list(subjects)
    not_compiling = {}
    for attempt in range(4):
        ws, batches, failures = e3.build_workspace(tag, active, derive_dep=derive_dep, extra_deps=extra_deps,
                                                   extra_crates=extra_crates, opt=opt)
        if not failures:
            break
        bad = {}
        nondet_batches = set()
        if derive_dep and derive_extern is None and "checked_derive" in derive_dep:
            import e4
            derive_extern = e4.externs()
        for bname, _stderr in failures:
            idxs = next(g for (n, g, _b) in batches if n == bname)
            f = compile_failures(active, idxs, derive_extern)
            if not f:
                # The batch failed although each of its subjects compiles on its own: with a deterministic derive this cannot
                # happen. Re-judge (uncached) twice more; if a subject now fails it is reported as such, otherwise the observed
                # failure of the batch is reported as a non-deterministic compilation outcome (the error text is real rustc output).
                for _try in range(2):
                    f = compile_failures(active, idxs, derive_extern, use_cache=False)
                    if f:
                        break
            if not f and ("signal:" in _stderr or not [l for l in _stderr.splitlines() if bname + "/main.rs" in l and "error" in l]):
                raise MachineryError("batch %s does not build for an environmental reason (no rustc diagnostic on its source):\n%s" % (
                    bname, _stderr[-2500:]))
            if not f:
                errs = [l for l in _stderr.splitlines() if bname + "/main.rs" in l and "error" in l][:6]
                res.violation({"kind": "compilation-outcome-not-deterministic", "batch_errors": errs[:3]},
                              {"note": "a batch of in-domain subjects failed to build while every subject compiles alone (3 attempts)",
                               "stderr": _stderr[-3000:], "subjects": [active[i].describe() for i in idxs[:5]]},
                              {"repro.rs": active[idxs[0]].standalone() + "fn main() {}\n"})
                res.outcome("nondeterministic-build")
                nondet_batches.add(bname)
                continue
            bad.update(f)
        for i, v in bad.items():
            not_compiling[active[i].sid] = v
        if nondet_batches and not bad:
            # nothing to remove: just try the build again
            continue
        active = [s for j, s in enumerate(active) if j not in bad]
        if not active:
            break
    else:
        if not res.violations:
            raise MachineryError("subject batches still fail to build after removing the failing subjects")
        active = []
    for sid, v in not_compiling.items():
        s = by_id[sid]
        key = {"kind": "does-not-compile", "config": s.cfg.describe(), "repr": s.decl.repr,
               "errors": v.errors[:2]}
        detail = {"subject": s.describe(), "rustc": v.to_json()}
        res.violation(key, detail, {"repro.rs": s.standalone() + "fn main() {}\n"})
        res.outcome("does-not-compile")
    merged = {"stats": {}, "violations": [], "machinery": [], "crashes": [], "hangs": []}
    if active:
        merged = e3.run_workspace(batches, phases=phases, timeout=timeout, budget=int(os.environ.get("VERIF_BUDGET", "120" if tag.startswith("quick/") else "900")))
    for m in merged["machinery"]:
        res.machinery_error(json.dumps(m)[:1500])
    for v in merged["violations"]:
        s = by_id.get(v.get("id"))
        key = {"kind": v["kind"], "call": v["call"], "config": s.cfg.describe() if s else None,
               "repr": s.decl.repr if s else None,
               "variants": [[x.ident, x.value] for x in s.decl.variants][:16] if s else None}
        detail = {"subject": s.describe() if s else v.get("id"), "expected": v["expected"], "got": v["got"]}
        res.violation(key, detail, replay.files_for(s, v) if s else None)
        res.outcome("violation:" + v["kind"])
    for c in merged["crashes"]:
        s = by_id.get(c["id"])
        key = {"kind": "abort", "phase": c["phase"], "config": s.cfg.describe() if s else None,
               "repr": s.decl.repr if s else None,
               "variants": [[x.ident, x.value] for x in s.decl.variants][:16] if s else None}
        detail = {"subject": s.describe() if s else c["id"], "returncode": c["returncode"], "stderr": c["stderr"]}
        res.violation(key, detail, replay.files_for_crash(s, c) if s else None)
        res.outcome("abort:" + str(c["phase"]))
    for h in merged.get("hangs", []):
        s = by_id.get(h["id"])
        key = {"kind": "does-not-terminate", "phase": h.get("phase"), "config": s.cfg.describe() if s else None,
               "repr": s.decl.repr if s else None,
               "variants": [[x.ident, x.value] for x in s.decl.variants][:16] if s else None}
        detail = {"subject": s.describe() if s else h["id"], "budget_s": h["budget_s"],
                  "note": "a call into the generated code did not return within the budget, twice (second time alone with 3x the budget)"}
        res.violation(key, detail, replay.files_for_crash(s, {"phase": h.get("phase"), "returncode": "timeout", "stderr": ""}) if s else None)
        res.outcome("hang:" + str(h.get("phase")))
    done = 0
    for sid, t in merged["stats"].items():
        res.states += t["states"]
        res.transitions += t["transitions"]
        res.nontrivial_count += t["nontrivial"]
        for k, n in t["outcomes"].items():
            res.outcome(k, n)
        done += 1
    res.validated += done
    crashed = {c["id"] for c in merged["crashes"]} | {h["id"] for h in merged.get("hangs", [])}
    missing = [s.sid for s in active if s.sid not in merged["stats"] and s.sid not in crashed]
    if merged.get("abandoned") and merged.get("hangs"):
        # batches were cut short after repeated watchdog timeouts and at least one hang is confirmed: the verdict stands,
        # the subjects not run are listed in the evidence instead of being a machinery error
        res.extra["subjects_not_run_after_hangs"] = len(missing)
        missing = []
    if missing:
        res.machinery_error("subjects without a result: %s" % missing[:10])
    res.extra.setdefault("subjects", 0)
    res.extra["subjects"] += len(subjects)
    res.extra.setdefault("subjects_run", 0)
    res.extra["subjects_run"] += done
    if not keep or tag.startswith("thorough/"):
        # thorough artefacts are large and never reused: sources, binaries and their object files go away with the run
        import glob
        shutil.rmtree(os.path.join(WORK, tag), ignore_errors=True)
        prefix = tag.replace("/", "_") + "_b"
        for tdir in ("e3", "e3opt"):
            base = os.path.join(TARGET, tdir, "debug")
            for f in glob.glob(os.path.join(base, prefix + "*")) + glob.glob(os.path.join(base, "deps", prefix + "*")) + \
                    glob.glob(os.path.join(base, ".fingerprint", prefix + "*")):
                if os.path.isdir(f):
                    shutil.rmtree(f, ignore_errors=True)
                else:
                    try:
                        os.remove(f)
                    except OSError:
                        pass
    return merged


def decl_key(s):
    """identity of a subject's declaration (what two subjects must share for their transcripts to be comparable)"""
    d = s.decl
    return (d.repr, d.name, tuple((v.ident, v.lit, v.rename) for v in d.variants), str(s.opts.get("bounds")), str(s.opts.get("args")))


def compare_transcripts(res, merged, subjects, group_of, kind_label, items=None):
    """Differential oracle without a hand-written expectation: within one group (same enum
    declaration, or same value set for C18) every item that two subjects both enable must have the
    same transcript hash. Returns the number of (group, item) pairs compared."""
    groups = {}
    for s in subjects:
        t = merged["stats"].get(s.sid)
        if not t or t.get("violations"):
            continue
        g = group_of(s)
        if g is None:
            continue
        for item, h in t.get("hashes", {}).items():
            if items is not None and item not in items:
                continue
            groups.setdefault((g, item), {}).setdefault(h, []).append(s)
    compared = 0
    for (g, item), hs in sorted(groups.items(), key=lambda kv: str(kv[0])):
        if sum(len(v) for v in hs.values()) > 1:
            compared += 1
        if len(hs) > 1:
            reps = [v[0] for v in hs.values()]
            res.violation({"kind": kind_label, "item": item,
                           "configs": [r.cfg.describe() for r in reps][:3],
                           "reprs": [r.decl.repr for r in reps][:3],
                           "variants": [[x.ident, x.value, x.rename] for x in reps[0].decl.variants][:16]},
                          {"subjects": [r.describe() for r in reps][:4],
                           "note": "the same item gives different transcripts in these configurations/declarations"},
                          {"repro.rs": "// A: \n" + reps[0].standalone() + "\n/* B:\n" + reps[1].standalone() + "*/\nfn main() {}\n"})
            res.outcome("transcript-divergence")
    res.extra["transcript_pairs_compared"] = res.extra.get("transcript_pairs_compared", 0) + compared
    return compared
