"""Shared plumbing: paths, process helpers, evidence, violations, known findings.

Exit codes (DESIGN.md §1 rule 2):
  0  property held on everything explored (known findings printed as KNOWN-FINDING lines)
  1  at least one violation not listed in known_findings.json  (VIOLATION property=.. replay=..)
  2  the machinery failed (never prints VIOLATION)
"""
import hashlib
import json
import os
import subprocess
import sys
import time

VERIF = os.path.dirname(os.path.dirname(os.path.abspath(__file__)))
REPO = os.environ.get("VERIF_REPO", "/repo")
WORK = os.path.join(VERIF, "work")
TARGET = os.path.join(VERIF, "target")
EVIDENCE = os.path.join(VERIF, "evidence")
REPLAYS = os.path.join(VERIF, "replays")
NCPU = os.cpu_count() or 4

ENV = dict(os.environ)
ENV.update({
    "CARGO_NET_OFFLINE": "true",
    "CARGO_TERM_COLOR": "never",
    "CARGO_INCREMENTAL": "0",
    "RUST_BACKTRACE": "0",
})
# never inherit flags that would change what the subject crates are
for k in ("RUSTFLAGS", "CARGO_ENCODED_RUSTFLAGS", "CARGO_BUILD_RUSTFLAGS", "CARGO_TARGET_DIR"):
    ENV.pop(k, None)


class MachineryError(Exception):
    """The machinery (not the subject) failed -> exit 2."""


def log(*a):
    print(*a, file=sys.stderr, flush=True)


def run(cmd, cwd=None, env=None, timeout=None, check=False, input=None):
    e = dict(ENV)
    if env:
        e.update(env)
    try:
        p = subprocess.run(cmd, cwd=cwd, env=e, stdout=subprocess.PIPE, stderr=subprocess.PIPE,
                           timeout=timeout or 3 * 3600, input=input)
    except subprocess.TimeoutExpired:
        # e.g. a derive that does not terminate while cargo expands it: never a verdict by itself
        raise MachineryError("command did not finish within its time limit: %s" % " ".join(cmd)[:300])
    if check and p.returncode != 0:
        raise MachineryError("command failed (%d): %s\n%s\n%s" % (
            p.returncode, " ".join(cmd), p.stdout.decode(errors="replace")[-4000:],
            p.stderr.decode(errors="replace")[-4000:]))
    return p


def sha(s):
    if isinstance(s, str):
        s = s.encode()
    return hashlib.sha256(s).hexdigest()


def write_if_changed(path, content):
    """Write only when the content differs, so cargo fingerprints stay valid."""
    if isinstance(content, str):
        content = content.encode()
    try:
        with open(path, "rb") as f:
            if f.read() == content:
                return False
    except FileNotFoundError:
        pass
    os.makedirs(os.path.dirname(path), exist_ok=True)
    import threading
    tmp = path + ".tmp%d-%d" % (os.getpid(), threading.get_ident())
    with open(tmp, "wb") as f:
        f.write(content)
    os.replace(tmp, path)
    return True


def repo_lock():
    with open(os.path.join(REPO, "Cargo.lock")) as f:
        return f.read()


def tool_versions():
    out = {}
    for name, cmd in (("rustc", ["rustc", "-V"]), ("cargo", ["cargo", "-V"])):
        try:
            out[name] = run(cmd).stdout.decode().strip()
        except Exception as e:  # pragma: no cover
            out[name] = "unavailable: %s" % e
    try:
        out["repo_head"] = run(["git", "-C", REPO, "rev-parse", "HEAD"]).stdout.decode().strip()
        st = run(["git", "-C", REPO, "status", "--porcelain"]).stdout.decode()
        out["repo_dirty"] = bool(st.strip())
    except Exception:
        pass
    return out


# ------------------------------------------------------------------ known findings

def load_known():
    with open(os.path.join(VERIF, "known_findings.json")) as f:
        k = json.load(f)
    return k.get("known", []), k.get("fixed", [])


def match_known(prop, key, known):
    """key: dict describing a violation. An entry matches if its property is the same and every
    (k, v) of entry['key'] is present in the violation key with an equal value."""
    for ent in known:
        if ent.get("property") != prop:
            continue
        ek = ent.get("key", {})
        if ek and all(key.get(k) == v for k, v in ek.items()):
            return ent
    return None


# ------------------------------------------------------------------ result collection

class Result:
    """Collects what one check run covered and found; writes evidence; decides the exit code."""

    def __init__(self, prop, tier, technique):
        self.prop = prop
        self.tier = tier
        self.t0 = time.time()
        self.seed = int(os.environ.get("VERIF_SEED", "0") or 0)
        self.states = 0
        self.transitions = 0
        self.validated = 0
        self.evaluations = 0
        self.nontrivial = set()
        self.nontrivial_count = 0
        self.samples = []
        self.outcomes = {}
        self.violations = []       # list of dict(key=..., detail=..., replay=path)
        self.known_hits = []
        self.machinery = []
        self.bounds = {}
        self.family = {}
        self.extra = {}
        self.assumptions = [
            "rustc/cargo 1.95 (nightly for Miri and -Zunpretty) on x86-64 Linux with 64-bit usize; behaviour on other targets is not observed",
            "rustc accept/reject verdicts may be served from a verdict cache keyed by (source text, flags, sha256 of the derive dylib built "
            "from /repo's current working tree, rustc -V, size+mtime of every --extern file): a changed derive never reuses a verdict",
        ]
        self.exhaustive = True
        self.rule = ""
        self.technique = technique
        self.unconfirmed = []

    def outcome(self, name, n=1):
        self.outcomes[name] = self.outcomes.get(name, 0) + n

    def sample(self, s, cap=12):
        if len(self.samples) < cap:
            self.samples.append(s)

    def machinery_error(self, msg):
        self.machinery.append(msg)

    def violation(self, key, detail, replay_files=None):
        """key: small dict identifying the failing case (matched against known findings).
        replay_files: dict name->content written into replays/<prop>/<hash>/"""
        known, _fixed = load_known()
        ent = match_known(self.prop, key, known)
        h = sha(json.dumps(key, sort_keys=True) + json.dumps(detail, sort_keys=True, default=str))[:16]
        d = os.path.join(REPLAYS, self.prop, h)
        os.makedirs(d, exist_ok=True)
        case = {"property": self.prop, "key": key, "detail": detail}
        with open(os.path.join(d, "case.json"), "w") as f:
            json.dump(case, f, indent=1, default=str)
        for name, content in (replay_files or {}).items():
            with open(os.path.join(d, name), "w") as f:
                f.write(content)
        if ent is not None:
            self.known_hits.append({"entry": ent.get("id"), "key": key})
            return d
        self.violations.append({"key": key, "detail": detail, "replay": d})
        return d

    def finish(self):
        wall = time.time() - self.t0
        known, _ = load_known()
        printed = set()
        for hit in self.known_hits:
            if hit["entry"] in printed:
                continue
            printed.add(hit["entry"])
            ent = next(e for e in known if e.get("id") == hit["entry"])
            print("KNOWN-FINDING: property=%s %s" % (self.prop, ent.get("what", ent.get("id"))))
        cov = {
            "states": self.states,
            "transitions": self.transitions,
            "traces_validated_against_impl": self.validated,
            "samples": self.samples[:12] or ["(none)"],
            "evaluations": self.evaluations or self.transitions,
            "distinct_nontrivial": self.nontrivial_count or len(self.nontrivial),
            "rule": self.rule,
            "exhaustive": bool(self.exhaustive),
            "bounds": self.bounds,
            "family": self.family,
            "distinct_outcomes": self.outcomes,
            "known_findings_matched": self.known_hits[:50],
            "unconfirmed_candidates": self.unconfirmed[:50],
            "engine_versions": tool_versions(),
            "technique": self.technique,
            "machinery_errors": self.machinery[:20],
        }
        cov.update(self.extra)
        ev = {
            "property_id": self.prop,
            "tier": self.tier,
            "seed": self.seed,
            "level": "model_checking",
            "coverage": cov,
            "assumptions": self.assumptions,
            "wall_s": round(wall, 2),
            "violations": len(self.violations),
        }
        os.makedirs(EVIDENCE, exist_ok=True)
        with open(os.path.join(EVIDENCE, self.prop + ".json"), "w") as f:
            json.dump(ev, f, indent=1, default=str)
            f.write("\n")
        # report
        seen = set()
        for v in self.violations:
            if v["replay"] in seen:
                continue
            seen.add(v["replay"])
            if len(seen) <= 40:
                print("VIOLATION property=%s replay=%s" % (self.prop, v["replay"]))
                log("  ", json.dumps(v["key"], default=str)[:400])
        if len(seen) > 40:
            print("... %d further violations (see evidence/replays)" % (len(seen) - 40))
        log("[%s %s] states=%d transitions=%d validated=%d outcomes=%s wall=%.1fs violations=%d known=%d machinery=%d" % (
            self.prop, self.tier, self.states, self.transitions, self.validated,
            json.dumps(self.outcomes)[:300], wall, len(self.violations), len(self.known_hits), len(self.machinery)))
        if self.violations:
            return 1
        if self.machinery:
            for m in self.machinery[:10]:
                log("MACHINERY:", m[:2000])
            return 2
        if self.states == 0 or self.transitions == 0:
            log("MACHINERY: vacuous run (nothing explored)")
            return 2
        return 0
