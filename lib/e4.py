"""E4 `EnumToolsChecked`: the real generator + UB monitors (DESIGN.md §2.4)."""
import glob
import os

import e1
from common import TARGET, VERIF, repo_lock, write_if_changed

CDIR = os.path.join(VERIF, "engines", "checked_derive")
DERIVE_USE = "use ::checked_derive::EnumToolsChecked as EnumTools;"
DEPS = ('checked_derive = { path = "%s/engines/checked_derive" }\nverif_rt = { path = "%s/engines/verif_rt" }' % (VERIF, VERIF))


def prepare():
    """(re)generate the module list from /repo/src/lib.rs; the crate itself is built by cargo as a path
    dependency of the subject workspaces."""
    write_if_changed(os.path.join(CDIR, "src", "mods.rs"), e1.gen_mods())


def setup():
    prepare()


def externs():
    """for E2 bisecting of failing batches"""
    so = sorted(glob.glob(os.path.join(TARGET, "e3", "debug", "deps", "libchecked_derive-*.so")), key=os.path.getmtime)
    rl = sorted(glob.glob(os.path.join(TARGET, "e3", "debug", "deps", "libverif_rt-*.rlib")), key=os.path.getmtime)
    out = {}
    if so:
        out["checked_derive"] = so[-1]
    if rl:
        out["verif_rt"] = rl[-1]
    return out
