"""bin/check --replay DIR: rebuild repro.rs against /repo's current derive and execute it twice.
Exit 1 (+ VIOLATION line) when the recorded violation reproduces both times, 0 when the program
passes both times, 2 when the two executions differ or the artefact cannot be built for reasons
unrelated to the recorded case."""
import json
import os

import e2
from common import log


def main(d):
    d = os.path.abspath(d)
    case = json.load(open(os.path.join(d, "case.json")))
    prop = case.get("property", "?")
    if case.get("key", {}).get("kind") == "expansion-differs-under-identical-schedule":
        import props_misc
        text = case["detail"]["declaration_full"]
        hits = 0
        for _ in range(3):
            r = props_misc.run_orders([text])[0]
            if any("same schedule" in e for e in r["errors"]) or r["distinct"] != 1:
                hits += 1
        log("explorations in which one schedule gave different expansions (or several expansions exist): %d of 3" % hits)
        if hits:
            print("VIOLATION property=%s replay=%s" % (prop, d))
            return 1
        log("replay passes on the current tree")
        return 0
    if case.get("key", {}).get("kind") == "expansion-depends-on-map-iteration-order":
        # replay = re-explore all iteration orders for the recorded declaration, twice
        import props_misc
        text = case["detail"]["declaration_full"]
        r1 = props_misc.run_orders([text])[0]
        r2 = props_misc.run_orders([text])[0]
        if (r1["distinct"], r1["executions"]) != (r2["distinct"], r2["executions"]):
            log("the two explorations differ: not deterministic", r1, r2)
            return 2
        log("executions=%d distinct expansions=%d" % (r1["executions"], r1["distinct"]))
        for o in r1["outcomes"][:2]:
            log("  schedule %s -> %s" % (o[0], o[1][:300]))
        if r1["distinct"] != 1:
            print("VIOLATION property=%s replay=%s" % (prop, d))
            return 1
        log("replay passes on the current tree")
        return 0
    src = open(os.path.join(d, "repro.rs")).read()
    kind = case.get("key", {}).get("kind") or ""
    cfgs = case.get("detail", {}).get("cfgs") or []
    MUST_NOT_COMPILE = {"out-of-domain-accepted", "invalid-configuration-accepted", "sorted-accepts-unsorted",
                        "item-accessible-beyond-requested-visibility", "default-name-still-exists", "helper-item-reachable-from-outside"}
    MUST_COMPILE = {"does-not-compile", "documented-configuration-rejected", "legal-attribute-rejected", "parent-does-not-compile",
                    "sorted-rejects-sorted", "item-not-accessible-where-requested", "declaration-does-not-compile",
                    "derive-adds-unrequested-item", "documented-signature-probe-fails", "signature-depends-on-configuration",
                    "does-not-compile-in-scope", "split-attributes-differ"}
    if kind in MUST_NOT_COMPILE or kind in MUST_COMPILE:
        # the verdict of these kinds is rustc's accept/reject of repro.rs (twice, uncached)
        sib = os.path.join(d, "sibling.rs")
        if os.path.exists(sib):
            # two crates: repro.rs is the library `c15`, sibling.rs the crate probing it from outside
            import props_vis
            rmeta, err = props_vis.rmeta_build(src, "replay")
            if rmeta is None:
                log("the library crate does not build: " + err[-800:])
                return 2
            extra = ["-L", "dependency=" + os.path.dirname(e2.build_anchor())]
            vs = [e2.compile_one(open(sib).read(), externs={"c15": rmeta}, use_cache=False, extra=extra) for _ in range(2)]
        else:
            vs = [e2.compile_one(src, cfgs=cfgs, crate_type="bin" if "fn main" in src else "lib", use_cache=False) for _ in range(2)]
        if vs[0].ok != vs[1].ok:
            log("the two compilations differ: not deterministic")
            return 2
        log("rustc %s repro.rs%s" % ("accepts" if vs[0].ok else "rejects: %s" % vs[0].errors[:3], " (cfgs %s)" % cfgs if cfgs else ""))
        violated = vs[0].ok if kind in MUST_NOT_COMPILE else not vs[0].ok
        if violated:
            print("VIOLATION property=%s replay=%s" % (prop, d))
            return 1
        log("replay passes on the current tree")
        return 0
    externs = None
    if prop == "C02" and not kind.startswith("miri"):
        # violations of the monitored run are only observable with the checked derive (the real one may fail silently: that is the point)
        import e3
        import e4
        import enums
        # rebuild the checked derive from /repo's CURRENT sources (cargo does it as a dependency of a one-subject workspace)
        e4.prepare()
        smoke = e3.Subj("smoke", enums.make_decl("i8", [1, 2, 9]), e3.Config(["into"]), derive_use=e4.DERIVE_USE)
        _ws, _b, fails = e3.build_workspace("replay/c02", [smoke], derive_dep=e4.DEPS)
        if fails:
            log("the checked derive does not build: " + fails[0][1][-800:])
            return 2
        externs = e4.externs()
        if len(externs) < 2:
            log("the checked derive is not built (run `bin/check C02 --tier quick` once)")
            return 2
        src = src.replace("use enum_tools::EnumTools;", "use checked_derive::EnumToolsChecked as EnumTools;")
    runs = []
    se = ""
    for _ in range(2):
        ok, err, rc, so, se = e2.run_program(src, externs=externs)
        runs.append((ok, rc, so))
        if not ok:
            break
    kind = case.get("key", {}).get("kind")
    if not runs[0][0]:
        if kind == "does-not-compile":
            print("VIOLATION property=%s replay=%s" % (prop, d))
            log("repro.rs does not compile (as recorded):\n" + err[-1500:])
            return 1
        log("repro.rs does not build:\n" + err[-3000:])
        return 2
    if runs[0] != runs[1]:
        log("the two executions differ: not deterministic", runs)
        return 2
    ok, rc, so = runs[0]
    log(so)
    log(se[-1500:])
    if rc == 3:
        log("this artefact has no executable template (see case.json)")
        return 2
    if kind == "abort" and rc == 0:
        log("the simplified sweep of the aborting phase terminates normally on the current tree")
        return 0
    if rc != 0:
        print("VIOLATION property=%s replay=%s" % (prop, d))
        return 1
    log("replay passes on the current tree")
    return 0
