"""bin/check --replay DIR: rebuild repro.rs against /repo's current derive and execute it twice.
Exit 1 (+ VIOLATION line) when the recorded violation reproduces both times, 0 when the program
passes both times, 2 when the two executions differ or the artefact cannot be built for reasons
unrelated to the recorded case."""
import json
import os

import e2
from common import log


def main(d):
    d = os.path.abspath(d)
    case = json.load(open(os.path.join(d, "case.json")))
    prop = case.get("property", "?")
    src = open(os.path.join(d, "repro.rs")).read()
    runs = []
    se = ""
    for _ in range(2):
        ok, err, rc, so, se = e2.run_program(src)
        runs.append((ok, rc, so))
        if not ok:
            break
    kind = case.get("key", {}).get("kind")
    if not runs[0][0]:
        if kind == "does-not-compile":
            print("VIOLATION property=%s replay=%s" % (prop, d))
            log("repro.rs does not compile (as recorded):\n" + err[-1500:])
            return 1
        log("repro.rs does not build:\n" + err[-3000:])
        return 2
    if runs[0] != runs[1]:
        log("the two executions differ: not deterministic", runs)
        return 2
    ok, rc, so = runs[0]
    log(so)
    log(se[-1500:])
    if rc == 3:
        log("this artefact has no executable template (see case.json)")
        return 2
    if rc != 0:
        print("VIOLATION property=%s replay=%s" % (prop, d))
        return 1
    log("replay passes on the current tree")
    return 0
