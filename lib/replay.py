"""Replayable artefacts: a self-contained repro.rs (real derive + plain main, no explorer) per violation,
and `bin/check --replay DIR` which rebuilds and re-executes it twice."""
import json
import os
import re

CONSUMER_RS = {
    "Fold": "sv(it.fold(Vec::new(), |mut v, x| { v.push(x); v }))",
    "Rfold": "sv(it.rfold(Vec::new(), |mut v, x| { v.push(x); v }))",
    "Last": "sv(it.last().into_iter().collect())",
    "Count": "format!(\"[{}]\", it.count())",
    "Collect": "sv(it.collect())",
    "RevCollect": "sv(it.rev().collect())",
    "ForEach": "{ let mut v = Vec::new(); it.for_each(|x| v.push(x)); sv(v) }",
    "RevNth1": "sv(it.rev().nth(1).into_iter().collect())",
    "Skip1RevCollect": "sv(it.skip(1).rev().collect())",
    "StepBy2Collect": "sv(it.step_by(2).collect())",
    "Take2RevCollect": "sv(it.take(2).rev().collect())",
}

PRELUDE = """// Self-contained replay: the real derive, a plain main, no explorer.
// build: rustc --edition 2021 --extern enum_tools=<libenum_tools.so> repro.rs && ./repro
#![allow(warnings)]
%(decl)s
type R = %(repr)s;
trait Show { fn show(&self) -> String; }
impl Show for E { fn show(&self) -> String { format!("{}", *self as R as i128) } }
impl Show for &'static str { fn show(&self) -> String { format!("{:?}", self) } }
fn so<T: Show>(o: Option<T>) -> String { match o { Some(e) => format!("Some({})", e.show()), None => "None".to_string() } }
fn sv<T: Show>(v: Vec<T>) -> String { let mut s = String::from("["); for (i, x) in v.iter().enumerate() { if i > 0 { s.push_str(", "); } if i >= 24 { s.push_str(&format!("… ({} items)", v.len())); break; } s.push_str(&x.show()); } s.push(']'); s }
fn main() {
    let expected: &str = %(expected)s;
    let got: String = { %(body)s };
    println!("call:     {}", %(call)s);
    println!("expected: {}", expected);
    println!("got:      {}", got);
    assert_eq!(got, expected, "property violated");
}
"""


def rs_lit(s):
    return json.dumps(s, ensure_ascii=False).replace("\\u0000", "\\0") if "\\u" not in json.dumps(s) else _rs(s)


def _rs(s):
    out = ['"']
    for ch in s:
        o = ord(ch)
        if ch == '"':
            out.append('\\"')
        elif ch == "\\":
            out.append("\\\\")
        elif ch == "\n":
            out.append("\\n")
        elif ch == "\r":
            out.append("\\r")
        elif ch == "\t":
            out.append("\\t")
        elif o < 0x20 or o == 0x7f:
            out.append("\\u{%x}" % o)
        else:
            out.append(ch)
    out.append('"')
    return "".join(out)


def op_rs(op, item):
    op = op.strip()
    return "so(it.%s)" % op


def body_for(s, v):
    """Rust expression (block body) computing the observed value as a String, or None."""
    cfg = s.cfg
    call = v["call"]
    kind = v["kind"]
    m = re.match(r"^(into|Into::from)\(E::(\w+)\)$", call)
    if m:
        if m.group(1) == "into":
            return "format!(\"{}\", <E>::%s(E::%s) as i128)" % (cfg.item("into"), m.group(2))
        return "format!(\"{}\", <R as From<E>>::from(E::%s) as i128)" % m.group(2)
    m = re.match(r"^(try_from|TryFrom::try_from)\((-?\d+)\)$", call)
    if m:
        if m.group(1) == "try_from":
            return "so(<E>::%s(%s as R))" % (cfg.item("try_from"), m.group(2))
        return "so(<E as TryFrom<R>>::try_from(%s as R).ok())" % m.group(2)
    m = re.match(r"^(as_str|<&str>::from|format!\(\"\{\}\"\)|format!\(\"\{:\?\}\"\))\(E::(\w+)\)", call)
    if m:
        w, id_ = m.group(1), m.group(2)
        if w == "as_str":
            return "format!(\"{:?}\", <E>::%s(E::%s))" % (cfg.item("as_str"), id_)
        if w == "<&str>::from":
            return "format!(\"{:?}\", <&'static str as From<E>>::from(E::%s))" % id_
        if "?" in w:
            return "format!(\"{:?}\", format!(\"{:?}\", E::%s))" % id_
        return "format!(\"{:?}\", format!(\"{}\", E::%s))" % id_
    m = re.match(r"^fn-vs-trait\((\".*\")\)$", call, re.S)
    if m and cfg.has("from_str") and cfg.has("FromStr"):
        return ("let a = so(<E>::%s(%s)); let b = so(<E as ::core::str::FromStr>::from_str(%s).ok()); "
                "if a == b { expected.to_string() } else { format!(\"fn {} vs trait {}\", a, b) }" % (cfg.item("from_str"), m.group(1), m.group(1)))
    m = re.match(r"^fn-vs-trait\((-?\d+)\)$", call)
    if m and cfg.has("try_from") and cfg.has("TryFrom"):
        return ("let a = so(<E>::%s(%s as R)); let b = so(<E as TryFrom<R>>::try_from(%s as R).ok()); "
                "if a == b { expected.to_string() } else { format!(\"fn {} vs trait {}\", a, b) }" % (cfg.item("try_from"), m.group(1), m.group(1)))
    m = re.match(r"^next_back\(next\((-?\d+)\)\)$", call)
    if m and cfg.has("next") and cfg.has("next_back"):
        v = next((x for x in s.decl.variants if x.value == int(m.group(1))), None)
        if v is not None:
            return ("match <E>::%s(E::%s) { Some(n) => so(<E>::%s(n)), None => \"None (from next)\".to_string() }"
                    % (cfg.item("next"), v.ident, cfg.item("next_back")))
    m = re.match(r"^chain by (next|next_back)$", call)
    if m and cfg.has(m.group(1)):
        f = m.group(1)
        start = "MIN" if f == "next" else "MAX"
        sv_ = sorted(s.decl.variants, key=lambda x: x.value)
        first = sv_[0].ident if f == "next" else sv_[-1].ident
        return ("let mut v: Vec<i128> = Vec::new(); let mut cur = Some(E::%s); let mut steps = 0; "
                "while let Some(c) = cur { v.push(c as R as i128); steps += 1; if steps > %d { break; } cur = <E>::%s(c); } format!(\"{:?}\", v)"
                % (first, len(sv_) + 1, cfg.item(f)))
    m = re.match(r"^(iter|names): method-call-syntax script", call)
    if m and cfg.has(m.group(1)):
        w = m.group(1)
        mk = "<E>::%s()" % cfg.item(w)
        return ("let none = || \"\\\"\\\\0none\\\"\".to_string(); let mut v: Vec<String> = Vec::new(); let mut it = %(mk)s; "
                "v.push(it.len().to_string()); v.push(it.next().map_or(none(), |x| x.show())); v.push(it.len().to_string()); "
                "v.push(it.next_back().map_or(none(), |x| x.show())); v.push(it.len().to_string()); let sh = it.size_hint(); "
                "v.push(sh.0.to_string()); v.push(sh.1.map_or(-1, |x| x as i128).to_string()); v.push(it.nth(1).map_or(none(), |x| x.show())); "
                "v.push(it.len().to_string()); v.push(it.nth_back(0).map_or(none(), |x| x.show())); v.push(it.len().to_string()); "
                "v.push(it.count().to_string()); v.push(%(mk)s.last().map_or(none(), |x| x.show())); v.push(%(mk)s.rev().next().map_or(none(), |x| x.show())); "
                "v.push(%(mk)s.fold(0i128, |a, _| a + 1).to_string()); v.push(%(mk)s.skip(2).next().map_or(none(), |x| x.show())); "
                "v.push(%(mk)s.len().to_string()); format!(\"[{}]\", v.join(\", \"))" % {"mk": mk})
    m = re.match(r"^(from_str|FromStr::from_str)\((\".*\")\)$", call, re.S)
    if m:
        if m.group(1) == "from_str":
            return "so(<E>::%s(%s))" % (cfg.item("from_str"), m.group(2))
        return "so(<E as ::core::str::FromStr>::from_str(%s).ok())" % m.group(2)
    if call in ("MIN", "MAX"):
        return "format!(\"{}\", <E>::%s as R as i128)" % cfg.item(call)
    m = re.match(r"^E::(\w+)\.(next|next_back)\(\)", call)
    if m:
        return "so(<E>::%s(E::%s))" % (cfg.item(m.group(2)), m.group(1))
    m = re.match(r"^(iter\(\)|names\(\)|range\(E::(\w+), E::(\w+)\)[^:]*)$", call, re.S)
    if m:
        # constructing the iterator itself failed (panic)
        if m.group(1).startswith("iter"):
            mk = "<E>::%s()" % cfg.item("iter")
        elif m.group(1).startswith("names"):
            mk = "<E>::%s()" % cfg.item("names")
        else:
            mk = "<E>::%s(E::%s, E::%s)" % (cfg.item("range"), m.group(2), m.group(3))
        return "let _it = %s; \"an iterator\".to_string()" % mk
    m = re.match(r"^(iter\(\)|names\(\)|range\(E::(\w+), E::(\w+)\)[^:]*): (.*)$", call, re.S)
    if m:
        if m.group(1).startswith("iter"):
            mk = "<E>::%s()" % cfg.item("iter")
        elif m.group(1).startswith("names"):
            mk = "<E>::%s()" % cfg.item("names")
        else:
            mk = "<E>::%s(E::%s, E::%s)" % (cfg.item("range"), m.group(2), m.group(3))
        ops = [o.strip() for o in m.group(4).split(";") if o.strip()]
        lines = ["let mut it = %s;" % mk]
        last = ops[-1]
        for o in ops[:-1]:
            lines.append("let _ = it.%s;" % o)
        if last == "len()":
            lines.append("format!(\"{}\", it.len())")
        elif last == "size_hint()":
            lines.append("format!(\"{:?}\", it.size_hint())")
        elif last in CONSUMER_RS:
            lines.append(CONSUMER_RS[last])
        elif re.match(r"^(next|next_back|nth|nth_back)\(", last):
            lines.append("so(it.%s)" % last)
        else:
            return None
        return " ".join(lines)
    return None


def files_for(s, v):
    body = body_for(s, v)
    decl = s.standalone()
    if body is None:
        txt = ("// No direct template for this call; the failing call was:\n//   %s\n// expected %s\n// got      %s\n#![allow(warnings)]\n%s\nfn main() { eprintln!(\"no direct replay template for this call: see case.json\"); std::process::exit(3); }\n"
               % (v["call"].replace("\n", "\\n"), v["expected"][:300].replace("\n", "\\n"),
                  v["got"][:300].replace("\n", "\\n"), decl))
        return {"repro.rs": txt}
    txt = PRELUDE % {"decl": decl, "repr": s.decl.repr, "expected": _rs(v["expected"]), "body": body,
                     "call": _rs(v["call"])}
    return {"repro.rs": txt}


def crash_main(s, phase):
    """A plain program that performs the sweep of the phase in which the subject aborted the process."""
    from enums import boundary_values, REPRS
    cfg, d = s.cfg, s.decl
    R = d.repr
    L = ["fn main() {", "    let vars = [%s];" % ", ".join("E::%s" % v.ident for v in d.variants)]
    ph = (phase or "").split(" ")[-1]
    if ph == "conv":
        args = boundary_values(d)
        L.append("    let args: [i128; %d] = [%s];" % (len(args), ", ".join("i128::MIN" if a == -(1 << 127) else str(a) for a in args)))
        if cfg.has("try_from"):
            L.append("    for n in args { let _ = <E>::%s(n as R).map(|e| e as R); }" % cfg.item("try_from"))
        if cfg.has("TryFrom"):
            L.append("    for n in args { let _ = <E as TryFrom<R>>::try_from(n as R).map(|e| e as R); }")
        if REPRS[R][0] <= 16:
            if cfg.has("try_from"):
                L.append("    for n in R::MIN..=R::MAX { let _ = <E>::%s(n).map(|e| e as R); }" % cfg.item("try_from"))
            if cfg.has("TryFrom"):
                L.append("    for n in R::MIN..=R::MAX { let _ = <E as TryFrom<R>>::try_from(n).map(|e| e as R); }")
    elif ph == "str":
        for f, call in (("as_str", "<E>::%s(v)" % cfg.item("as_str")), ("Display", "format!(\"{}\", v)"), ("Debug", "format!(\"{:?}\", v)"),
                        ("IntoStr", "<&'static str as From<E>>::from(v)")):
            if cfg.has(f):
                L.append("    for v in vars { let _ = %s; }" % call)
    elif ph == "from_str":
        names = sorted(set([v.name for v in d.variants] + [v.ident for v in d.variants] + [""]))
        L.append("    let names = [%s];" % ", ".join(_rs(n) for n in names))
        if cfg.has("from_str"):
            L.append("    for n in names { let _ = <E>::%s(n).map(|e| e as R); }" % cfg.item("from_str"))
        if cfg.has("FromStr"):
            L.append("    for n in names { let _ = <E as ::core::str::FromStr>::from_str(n).map(|e| e as R); }")
    elif ph == "order":
        for f in ("next", "next_back"):
            if cfg.has(f):
                L.append("    for v in vars { let _ = <E>::%s(v).map(|e| e as R); }" % cfg.item(f))
    elif ph in ("iter", "names"):
        mk = "<E>::%s()" % cfg.item(ph)
        L.append("    let _ = %s.count(); let _ = %s.rev().count(); let mut it = %s; while let (Some(_), Some(_)) = (it.next(), it.next_back()) {}" % (mk, mk, mk))
        L.append("    for k in 0..vars.len() + 2 { let mut it = %s; let _ = it.nth(k); let _ = it.len(); let mut it = %s; let _ = it.nth_back(k); let _ = it.next(); }" % (mk, mk))
    elif ph == "range":
        L.append("    for a in vars { for b in vars { let mut it = <E>::%s(a, b); let _ = it.len(); let _ = it.next_back(); let _ = it.next(); let _ = it.count(); let _ = <E>::%s(a, b).rev().count(); } }" % (cfg.item("range"), cfg.item("range")))
    L.append("}")
    return "\n".join(L) + "\n"


CRASH_BODY = {
    "conv": "for n in R::MIN..=R::MAX { let _ = <E>::%(try_from)s(n); }",
}


def files_for_crash(s, c):
    decl = s.standalone()
    txt = ("// The subject aborted the process (phase %s, return code %s).\n// stderr: %s\n// This program repeats the sweep of that phase; it must terminate normally.\n#![allow(warnings)]\n%s\ntype R = %s;\n%s"
           % (c["phase"], c["returncode"], c["stderr"][-400:].replace("\n", "\n// "), decl, s.decl.repr, crash_main(s, c["phase"])))
    return {"repro.rs": txt}
