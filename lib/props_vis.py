"""C15: name / vis / struct_name honoured, helpers private, nothing else added (E2 probe matrix + E1 helper listing)."""
import concurrent.futures as cf
import os
import shutil
import subprocess

import catalogue
import e1
import e2
import enums
from common import ENV, NCPU, WORK, MachineryError, Result, log, sha
from e3 import Config, Subj
from e3check import explore
from enums import make_decl

SITES = ["inner", "outer", "root", "sibling"]
ENUM_VIS = ["", "pub(crate)", "pub(super)", "pub(in crate::outer)", "pub"]
PRIV_CODES = {"E0603", "E0616", "E0624"}
# `E::into`, `E::try_from`, ... fall back to the prelude trait method when the inherent item is private or absent: rustc then reports
# "type annotations needed" / unsatisfied bound instead of a privacy error. Every negative probe has a positive twin (same body, site
# `inner`) that must compile, so these codes cannot hide a broken probe.
FALLBACK_CODES = {"E0282", "E0283", "E0277", "E0599", "E0790"}


def visible(vis, site):
    if site == "inner":
        return True
    if site == "outer":
        return vis != ""
    if site == "root":
        return vis in ("pub(crate)", "pub")
    if site == "sibling":
        return vis == "pub"
    raise ValueError(site)


LEVEL = {"": 0, "pub(super)": 1, "pub(in crate::outer)": 1, "pub(crate)": 2, "pub": 3}


def satisfiable(feature, eff_vis, enum_vis):
    """An iterator struct over E that is more visible than E itself cannot be written in Rust at all
    (E0446: private type in public interface, through `type Item = E`), so such requests are outside what any
    implementation could honour and are not part of the matrix."""
    return not (feature == "iter" and LEVEL[eff_vis] > LEVEL[enum_vis])


def crate_src(enum_vis, attr, probes, body="A = 1, B = 2, C = 9"):
    """probes: dict site -> probe body using the placeholder P for the path prefix of module `inner`"""
    def probe_body(site, prefix):
        b = probes.get(site)
        if not b:
            return ""
        return "#[cfg(p_%s)] fn probe() { %s }" % (site, b.replace("P::", prefix))
    return """#![allow(warnings)]
pub mod outer {
    pub mod inner {
        use enum_tools::EnumTools;
        #[derive(Clone, Copy, EnumTools)]
        #[enum_tools(%s)]
        #[repr(i8)]
        %s enum E { %s }
        %s
    }
    %s
}
%s
""" % (attr, enum_vis, body, probe_body("inner", ""), probe_body("outer", "inner::"), probe_body("root", "outer::inner::"))


def rmeta_build(src, tag):
    """compile a lib crate `c15` to metadata; returns (path or None, Verdict-like errors)"""
    dylib = e2.build_anchor()
    d = os.path.join(WORK, "c15", tag)
    os.makedirs(d, exist_ok=True)
    sp = os.path.join(d, "lib.rs")
    with open(sp, "w") as f:
        f.write(src)
    p = subprocess.run(["rustc", "--edition", "2021", "--emit=metadata", "--crate-type", "lib", "--crate-name", "c15", "-A", "warnings",
                        "--out-dir", d, "--extern", "enum_tools=" + dylib, sp], stdout=subprocess.PIPE, stderr=subprocess.PIPE, env=ENV)
    out = os.path.join(d, "libc15.rmeta")
    if p.returncode != 0 or not os.path.exists(out):
        return None, p.stderr.decode(errors="replace")[-1500:]
    return out, ""


def item_probe(feature, name, struct_name=None):
    """probe bodies: (assoc item probe, struct probe or None)"""
    if feature in ("MIN", "MAX"):
        a = "let _ = P::E::%s;" % name
    else:
        a = "let _ = P::E::%s;" % name
    s = None
    if feature in ("iter", "names"):
        s = "let _: Option<P::%s> = None;" % (struct_name or ("EIter" if feature == "iter" else "ENames"))
    return a, s


def c15(tier):
    res = Result("C15", tier, "exhaustive matrix (nameable feature x vis value x default/custom name x enum visibility x probe site) of positive/negative access probes "
                               "judged by rustc against Rust's visibility rule; helper items listed over the whole configuration space and probed for privacy")
    enum_vis = ENUM_VIS if tier == "thorough" else ["", "pub(super)", "pub"]
    decls = []   # (feature, vis_param, name_param, enum_vis, attr text, item name, struct name, enum body)
    BODIES = {False: "A = 1, B = 2, C = 9", True: "A = 1, B = 2, C = 3"}
    # every code path that emits a visibility: feature x mode x shape (each `quote!` arm carries its own `#vis`)
    variants_ = []
    for f in catalogue.NAMEABLE:
        for g in (False, True):
            modes = [None]
            if f in ("as_str", "from_str"):
                modes = [None, "match", "table"]
            elif f == "iter":
                modes = [None, "next_and_back", "table", "table_inline"] + (["range"] if g else [])
            for m in modes:
                variants_.append((f, m, g))
    for (f, m, g) in variants_:
        base_variant = (m is None and not g)
        for vis in [None] + catalogue.VIS_VALUES:
            for custom in (False, True):
                for ev in enum_vis:
                    if not base_variant and (custom or (tier == "quick" and ev == "pub(super)")):
                        continue    # the name dimension is explored on the base variant of each feature
                    p = {}
                    if m is not None:
                        p["mode"] = m
                    if vis is not None:
                        p["vis"] = vis
                    name = f
                    sname = None
                    if custom:
                        p["name"] = name = "zz_" + f.lower()
                        if f in catalogue.STRUCT_NAMED:
                            p["struct_name"] = sname = "Zz" + f.capitalize()
                    pre = [("iter", {})] if f == "range" else []
                    if not satisfiable(f, vis if vis is not None else ev, ev):
                        continue
                    cfg = Config(pre + [(f, p)])
                    decls.append((f, vis, custom, ev, cfg.attr_text(), name, sname, BODIES[g]))
    # range follows the iterator mode: its arms differ per mode as well
    for g in (False, True):
        for im in ["next_and_back", "table"] + (["range"] if g else []):
            for vis in [None] + catalogue.VIS_VALUES:
                for ev in enum_vis:
                    if tier == "quick" and ev == "pub(super)":
                        continue
                    p = {} if vis is None else {"vis": vis}
                    cfg = Config([("iter", {"mode": im}), ("range", p)])
                    decls.append(("range", vis, False, ev, cfg.attr_text(), "range", None, BODIES[g]))
    jobs = []      # (decl index, site, kind, src, cfgs, externs, expect_ok)
    sib = {}       # decl index -> lib source
    for di, (f, vis, custom, ev, attr, name, sname, ebody) in enumerate(decls):
        eff = vis if vis is not None else ev
        a, s = item_probe(f, name, sname)
        probes = {site: a for site in SITES}
        src = crate_src(ev, attr, probes, ebody)
        sib[di] = crate_src(ev, attr, {}, ebody)
        for site in SITES[:3]:
            want = visible(ev, site) and visible(eff, site)
            jobs.append((di, site, "item", src, ["p_" + site], None, want))
        want_sib = ev == "pub" or di % 7 == 0
        if want_sib:
            jobs.append((di, "sibling", "item", "#![allow(warnings)]\nfn probe() { %s }\n" % a.replace("P::", "c15::outer::inner::"), [], "SIB",
                         visible(ev, "sibling") and visible(eff, "sibling")))
        if s:
            ssrc = crate_src(ev, attr, {site: s for site in SITES}, ebody)
            for site in SITES[:3]:
                jobs.append((di, site, "struct", ssrc, ["p_" + site], None, visible(eff, site)))
            if want_sib:
                jobs.append((di, "sibling", "struct", "#![allow(warnings)]\nfn probe() { %s }\n" % s.replace("P::", "c15::outer::inner::"), [], "SIB",
                             visible(eff, "sibling")))
        if custom:
            # the default name must not exist
            d_a, d_s = item_probe(f, f, None)
            jobs.append((di, "inner", "default-name-absent", crate_src(ev, attr, {"inner": d_a}, ebody), ["p_inner"], None, "E0599"))
            if d_s:
                jobs.append((di, "inner", "default-struct-absent", crate_src(ev, attr, {"inner": d_s}, ebody), ["p_inner"], None, "E0412"))
    # sibling libs
    libs = {}
    with cf.ThreadPoolExecutor(max_workers=NCPU) as ex:
        futs = {di: ex.submit(rmeta_build, src, "l%04d" % di) for di, src in sib.items()}
        for di, fu in futs.items():
            libs[di] = fu.result()
    cases = []
    for (di, site, kind, src, cfgs, ext, want) in jobs:
        c = {"src": src, "cfgs": cfgs}
        if ext == "SIB":
            if libs[di][0] is None:
                c = None
            else:
                c["externs"] = {"c15": libs[di][0]}
                c["extra"] = ["-L", "dependency=" + os.path.dirname(e2.build_anchor())]
        cases.append(c)
    verdicts = e2.compile_many([c for c in cases if c is not None])
    vi = iter(verdicts)
    for job, c in zip(jobs, cases):
        di, site, kind, src, cfgs, ext, want = job
        f, vis, custom, ev, attr, name, sname, ebody = decls[di]
        res.states += 1
        res.transitions += 1
        if c is None:
            res.violation({"kind": "declaration-does-not-compile", "attr": attr, "enum_vis": ev}, {"rustc": libs[di][1]},
                          {"repro.rs": sib[di] + "\nfn main() {}\n"})
            continue
        v = next(vi)
        res.validated += 1
        key = {"kind": None, "feature": f, "vis": vis, "custom_name": custom, "enum_vis": ev, "site": site, "probe": kind}
        repro = src if ext != "SIB" else sib[di]
        sibling = {"sibling.rs": src} if ext == "SIB" else {}
        if want is True:
            res.outcome("positive-probe")
            if not v.ok:
                key["kind"] = "item-not-accessible-where-requested"
                res.violation(key, {"attr": attr, "rustc": v.to_json(), "cfgs": cfgs}, dict({"repro.rs": repro + ("\nfn main() {}\n" if not sibling else "")}, **sibling))
        elif want is False:
            res.outcome("negative-probe")
            res.nontrivial.add((di, site, kind))
            if v.ok:
                key["kind"] = "item-accessible-beyond-requested-visibility"
                res.violation(key, {"attr": attr, "cfgs": cfgs}, dict({"repro.rs": "// must NOT compile (privacy), but does:\n" + repro + ("\nfn main() {}\n" if not sibling else "")}, **sibling))
            elif not (set(v.codes) & (PRIV_CODES | FALLBACK_CODES)):
                res.machinery_error("negative probe failed for a non-privacy reason: %s %s %s" % (attr, site, v.errors[:2]))
        else:
            res.outcome("default-name-absent-probe")
            if v.ok:
                key["kind"] = "default-name-still-exists"
                res.violation(key, {"attr": attr, "cfgs": cfgs}, {"repro.rs": "// must NOT compile (the item was renamed), but does:\n" + repro + "\nfn main() {}\n"})
            elif not (set(v.codes) & ({"E0599", "E0412", "E0425", "E0433"} | FALLBACK_CODES)):
                res.machinery_error("default-name probe failed for another reason: %s %s" % (attr, v.errors[:2]))
    shutil.rmtree(os.path.join(WORK, "c15"), ignore_errors=True)

    # ---- helpers stay private; nothing else is added (E1 over the configuration space, confirmed by probes)
    from props_cfg import ARCHETYPES, run_space
    spaces = run_space(res, tier)
    helper_cases = []
    for k, sp in spaces.items():
        arch = dict(ARCHETYPES)[k]
        for ctext, msg in sp["leak"][:10]:
            res.unconfirmed.append({"e1": "unrequested non-private item", "config": ctext, "msg": msg})
        for hq, visset in sp["helpers"].items():
            # "Owner::name" for members of inherent impls of other types (iterator structs); plain name for members of `impl E`
            owner, _, hname = hq.rpartition("::")
            owner = owner or "E"
            reps = sp["classes"].get(hname, {}).get("vis", [])
            nonpriv = any(v.strip("`") for v in visset.split(","))
            for cl in reps:
                cfg = e1.cfg_from_text(cl["rep"], zz=True)
                enum_txt = arch.replace("pub enum", "pub enum")
                base = ("#![allow(warnings)]\npub mod inner {\n use enum_tools::EnumTools;\n #[derive(Clone, Copy, EnumTools)]\n #[enum_tools(%s)]\n %s\n"
                        " #[cfg(p_inner)] fn probe() { let _ = %s::%s; }\n}\n#[cfg(p_root)] fn probe() { let _ = inner::%s::%s; }\n"
                        % (cfg.attr_text(), enum_txt, owner, hname, owner, hname))
                helper_cases.append((k, hname, cfg, base, "p_inner", True))
                helper_cases.append((k, hname, cfg, base, "p_root", False))
    hv = e2.compile_many([{"src": c[3], "cfgs": [c[4]]} for c in helper_cases])
    for (k, hname, cfg, src, pc, want), v in zip(helper_cases, hv):
        res.states += 1
        res.transitions += 1
        res.validated += 1
        res.outcome("helper-probe:" + ("inside" if want else "outside"))
        if want and not v.ok:
            res.machinery_error("helper %s is not usable inside the module: %s" % (hname, v.errors[:2]))
        if not want:
            if v.ok:
                res.violation({"kind": "helper-item-reachable-from-outside", "helper": hname, "config": cfg.describe(), "archetype": k},
                              {"source": src, "cfgs": [pc]}, {"repro.rs": "// must NOT compile (helper must be private), but does with --cfg p_root:\n" + src + "\nfn main() {}\n"})
            elif not (set(v.codes) & PRIV_CODES):
                res.machinery_error("helper probe failed for a non-privacy reason: %s %s" % (hname, v.errors[:2]))
    res.extra["helpers_found"] = {k: sorted(sp["helpers"]) for k, sp in spaces.items()}

    # ---- nothing else is added: the user defines every default name / implements every trait that was NOT requested
    own_cases = []
    TR = {"Debug": "impl ::core::fmt::Debug for E { fn fmt(&self, f: &mut ::core::fmt::Formatter<'_>) -> ::core::fmt::Result { f.write_str(\"\") } }",
          "Display": "impl ::core::fmt::Display for E { fn fmt(&self, f: &mut ::core::fmt::Formatter<'_>) -> ::core::fmt::Result { f.write_str(\"\") } }",
          "FromStr": "impl ::core::str::FromStr for E { type Err = u8; fn from_str(_: &str) -> Result<Self, u8> { Err(0) } }",
          "Into": "impl From<E> for R { fn from(e: E) -> R { 0 } }",
          "IntoStr": "impl From<E> for &'static str { fn from(e: E) -> Self { \"\" } }",
          "TryFrom": "impl TryFrom<R> for E { type Error = u8; fn try_from(_: R) -> Result<Self, u8> { Err(0) } }"}
    FNS = {"as_str": "fn as_str(self) {}", "from_str": "fn from_str() {}", "into": "fn into(self) {}", "MAX": "const MAX: u8 = 0;", "MIN": "const MIN: u8 = 0;",
           "next": "fn next(self) {}", "next_back": "fn next_back(self) {}", "try_from": "fn try_from() {}", "iter": "fn iter() {}", "names": "fn names() {}",
           "range": "fn range() {}"}
    STRUCTS = {"iter": "struct EIter;", "names": "struct ENames;"}
    for (r, g), vals in [(("i8", True), [3, 4, 5, 6]), (("i8", False), [-10, -5, -4, 3]), (("u64", False), [1, 2, 9])]:
        cfgs = catalogue.small_configs(1 if tier == "quick" else 2, g)
        for m in ({}, {"as_str": "table", "from_str": "table", "FromStr": "table", "iter": "table"}):
            for dr in catalogue.FEATURES:
                c = catalogue.full_config(g, m, drop=(dr,))
                if c is not None:
                    cfgs.append(c)
        for cfg in cfgs:
            have = {f for f, _ in cfg.feats}
            extra = ["type R = %s;" % r]
            extra += [t for f, t in TR.items() if f not in have]
            extra += ["impl E { %s }" % " ".join(t for f, t in FNS.items() if f not in have)]
            extra += [t for f, t in STRUCTS.items() if f not in have]
            d = make_decl(r, vals, renames=False)
            src = "#![allow(warnings)]\nuse enum_tools::EnumTools;\n" + d.render(cfg.attr_lines(), indent="") + "\n" + "\n".join(extra) + "\n"
            own_cases.append((cfg, src))
    ov = e2.compile_many([{"src": s} for _c, s in own_cases])
    for (cfg, src), v in zip(own_cases, ov):
        res.states += 1
        res.transitions += 1
        res.validated += 1
        res.outcome("user-defines-unrequested-items")
        if not v.ok:
            res.violation({"kind": "derive-adds-unrequested-item", "config": cfg.describe(), "errors": v.errors[:3]},
                          {"rustc": v.to_json()}, {"repro.rs": src + "\nfn main() {}\n"})

    # ---- default struct names are EnumName+Iter / EnumName+Names whatever the enum is called (seed C15-r6m2: a hand-written
    #      raw-prefix strip ate leading `r`s); a raw identifier's name is the identifier without `r#`
    ENUM_NAMES = ["E", "rgb", "r", "R", "Rr", "rr", "r2d2", "rrr_x", "r#ref", "r#type", "r#return", "r#rr", "Iter", "Names", "_x", "__E", "x_", "e", "T",
                  "\u00c4rger", "r\u00e9sum\u00e9", "hash_r", "IterNames", "Er", "rE"]
    name_cases = []
    for nm in ENUM_NAMES:
        plain = nm[2:] if nm.startswith("r#") else nm
        for g, body in ((True, "A = 1, B = 2, C = 3"), (False, "A = 1, B = 2, C = 9")):
            for im in ([None, "table"] if tier == "quick" else [None, "next_and_back", "table", "table_inline"] + (["range"] if g else [])):
                ip = {} if im is None else {"mode": im}
                cfg = Config([("iter", ip), "names"] + (["range"] if im != "table_inline" else []))
                src = ("#![allow(warnings)]\npub mod inner {\n use enum_tools::EnumTools;\n #[derive(Clone, Copy, EnumTools)]\n #[enum_tools(%s)]\n #[repr(i8)]\n"
                       " pub enum %s { %s }\n}\nfn probe() {\n let a: inner::%sIter = inner::%s::iter();\n let b: inner::%sNames = inner::%s::names();\n%s}\n"
                       % (cfg.attr_text(), nm, body, plain, nm, plain, nm,
                          (" let c: inner::%sIter = inner::%s::range(inner::%s::A, inner::%s::B);\n" % (plain, nm, nm, nm)) if im != "table_inline" else ""))
                name_cases.append((nm, cfg, src))
    nv = e2.compile_many([{"src": c[2]} for c in name_cases])
    for (nm, cfg, src), v in zip(name_cases, nv):
        res.states += 1
        res.transitions += 1
        res.validated += 1
        res.outcome("default-struct-name-probe")
        if not v.ok:
            res.violation({"kind": "default-struct-name-not-enum-name-plus-suffix", "enum_name": nm, "config": cfg.describe(), "errors": v.errors[:2]},
                          {"rustc": v.to_json()}, {"repro.rs": src + "\nfn main() {}\n"})

    # ---- dependants use the renamed items: everything renamed, built and run
    subs = []
    bounds = dict(x1_depth=2, x2_extra=1, x2_cap=5, range_x1_depth=1, range_x2_extra=1, consumers=False)
    base_decls = [make_decl("i8", [4, 6, 3, 5], salt=2), make_decl("i8", [-5, 3, -10, -4], salt=5), make_decl("u64", [9, 1, 2], salt=3)]
    if tier == "thorough":
        for r in ("i8", "u16", "i64"):
            base_decls += enums.family_F(r, 2, 2, 1)
    for i, d in enumerate(base_decls):
        for j, m in enumerate(({}, {"as_str": "table", "from_str": "table", "FromStr": "table", "iter": "table"},
                               {"as_str": "match", "from_str": "match", "FromStr": "match", "iter": "next_and_back"})):
            cfg = catalogue.full_config(d.gapless, m, names=True)
            # also struct_name
            feats = [(f, dict(p, struct_name="Zz" + f.capitalize()) if f in catalogue.STRUCT_NAMED else p) for f, p in cfg.feats]
            subs.append(Subj("r%03d_%d" % (i, j), d, Config(feats), bounds=bounds, sweep_full=False))
    explore(res, "%s/c15" % tier, subs)
    res.rule = ("states = probe programs (each its own crate or crate pair) + helper probes + 'user defines the unrequested names' programs + explorer states of the "
                "all-renamed subjects; non-trivial = negative probes (must fail with a privacy error code)")
    res.bounds = {"enum_visibilities": enum_vis, "sites": SITES, "vis_values": [None] + catalogue.VIS_VALUES}
    for d in decls[:2] + decls[len(decls) // 2:len(decls) // 2 + 2]:
        res.sample({"feature": d[0], "vis": d[1], "custom": d[2], "enum_vis": d[3], "attr": d[4], "enum": d[7]})
    res.extra["declarations"] = len(decls)
    return res.finish()


CHECKS = {"C15": c15}
