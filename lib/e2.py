"""E2: accept / reject by the real compiler, one case per crate (DESIGN.md §2.2)."""
import concurrent.futures as cf
import glob
import json
import os
import shutil
import subprocess

from common import ENV, NCPU, REPO, TARGET, VERIF, WORK, MachineryError, log, repo_lock, run, sha, write_if_changed

_anchor = {}
import threading as _threading
_anchor_lock = _threading.Lock()


def build_anchor(force=False):
    """Build /repo's derive (path dependency => current working tree) and return the dylib path."""
    if "dylib" in _anchor and not force:
        return _anchor["dylib"]
    with _anchor_lock:
        if "dylib" in _anchor and not force:
            return _anchor["dylib"]
        return _build_anchor_locked()


def _build_anchor_locked():
    adir = os.path.join(VERIF, "engines", "anchor")
    if REPO != "/repo":
        # a snapshot of the repository (vp run --with-repo): build a private copy of the anchor against it
        adir = os.path.join(WORK, "anchor-alt")
        os.makedirs(os.path.join(adir, "src"), exist_ok=True)
        base = os.path.join(VERIF, "engines", "anchor")
        write_if_changed(os.path.join(adir, "Cargo.toml"), open(os.path.join(base, "Cargo.toml")).read().replace('"/repo"', '"%s"' % REPO))
        write_if_changed(os.path.join(adir, "src", "lib.rs"), open(os.path.join(base, "src", "lib.rs")).read())
    lock = os.path.join(adir, "Cargo.lock")
    write_if_changed(lock, repo_lock())
    tdir = os.path.join(TARGET, "anchor")
    p = run(["cargo", "build", "--offline", "--target-dir", tdir, "--message-format=json"], cwd=adir)
    dylib = None
    msgs = []
    for line in p.stdout.decode(errors="replace").splitlines():
        try:
            m = json.loads(line)
        except Exception:
            continue
        if m.get("reason") == "compiler-artifact" and m.get("target", {}).get("name") in ("enum_tools", "enum-tools"):
            for f in m.get("filenames", []):
                if f.endswith(".so"):
                    dylib = f
        if m.get("reason") == "compiler-message":
            msgs.append(m.get("message", {}).get("rendered", ""))
    if p.returncode != 0 or dylib is None:
        raise MachineryError("the derive in %s does not build:\n%s\n%s" % (
            REPO, "\n".join(msgs)[-6000:], p.stderr.decode(errors="replace")[-3000:]))
    with open(dylib, "rb") as f:
        _anchor["hash"] = sha(f.read())[:20]
    _anchor["dylib"] = dylib
    _anchor["rustc"] = run(["rustc", "-V"]).stdout.decode().strip()
    return dylib


def driver_rlib():
    c = sorted(glob.glob(os.path.join(TARGET, "e3", "debug", "deps", "libdriver-*.rlib")), key=os.path.getmtime)
    return c[-1] if c else None


class Verdict:
    __slots__ = ("ok", "errors", "codes", "from_derive", "raw")

    def __init__(self, ok, errors, codes, from_derive):
        self.ok = ok
        self.errors = errors          # list of messages (level error)
        self.codes = codes            # list of error codes
        self.from_derive = from_derive  # True when some error's span comes from the EnumTools expansion

    def to_json(self):
        return {"ok": self.ok, "errors": self.errors[:6], "codes": self.codes[:6], "from_derive": self.from_derive}


_dmsgs = {}


def derive_messages():
    """Diagnostic texts the derive can emit, discovered from /repo's sources at run time (used only to
    classify *why* a case was rejected in the evidence; wording is never asserted)."""
    if "m" in _dmsgs:
        return _dmsgs["m"]
    import re
    out = set()
    for root, _d, files in os.walk(os.path.join(REPO, "src")):
        for fn in files:
            if not fn.endswith(".rs"):
                continue
            txt = open(os.path.join(root, fn)).read()
            for m in re.finditer(r'(?:write!\(\s*f\s*,|abort!\([^;]*?,|emit_error!\([^;]*?,)\s*"((?:[^"\\]|\\.)*)"', txt, re.S):
                lit = m.group(1).split("{")[0].strip()
                if len(lit) >= 6:
                    out.add(lit)
    _dmsgs["m"] = out
    return out


def _span_from_derive(sp):
    while sp:
        exp = sp.get("expansion")
        if not exp:
            return False
        name = exp.get("macro_decl_name", "")
        if "EnumTools" in name or "enum_tools" in name:
            return True
        sp = exp.get("span")
    return False


def _stamp(path):
    try:
        st = os.stat(path)
        return [st.st_size, int(st.st_mtime * 1000)]
    except OSError:
        return None


def compile_one(src, cfgs=(), crate_type="lib", externs=None, edition="2021", use_cache=True, extra=()):
    dylib = build_anchor()
    key = sha(json.dumps(["obj2", src, list(cfgs), crate_type, edition, _anchor["hash"], _anchor["rustc"],
                          sorted((k, v, _stamp(v)) for k, v in (externs or {}).items()), list(extra)]))
    cdir = os.path.join(WORK, "e2cache", key[:2])
    cpath = os.path.join(cdir, key + ".json")
    if use_cache and os.path.exists(cpath):
        try:
            with open(cpath) as f:
                j = json.load(f)
            return Verdict(j["ok"], j["errors"], j["codes"], j["from_derive"])
        except Exception:
            pass
    import threading
    tdir = os.path.join(WORK, "e2tmp", "%s-%d-%d" % (key[:24], os.getpid(), threading.get_ident()))
    os.makedirs(tdir, exist_ok=True)
    srcp = os.path.join(tdir, "case.rs")
    with open(srcp, "w") as f:
        f.write(src)
    # --emit=obj + link-dead-code: constants of every (also unused, private) non-generic item are
    # evaluated, so a derive whose tables fail const evaluation is rejected here like in a real build
    cmd = ["rustc", "--edition", edition, "--emit=obj", "-C", "link-dead-code", "-C", "opt-level=0", "-C", "debuginfo=0",
           "-C", "codegen-units=1", "--crate-type", crate_type, "--crate-name", "case",
           "--error-format=json", "-A", "warnings", "--out-dir", tdir, "--extern", "enum_tools=" + dylib]
    for k, v in (externs or {}).items():
        cmd += ["--extern", "%s=%s" % (k, v)]
    for c in cfgs:
        cmd += ["--cfg", c]
    cmd += list(extra)
    cmd.append(srcp)
    try:
        p = subprocess.run(cmd, stdout=subprocess.PIPE, stderr=subprocess.PIPE, env=ENV, timeout=900)
    except subprocess.TimeoutExpired:
        shutil.rmtree(tdir, ignore_errors=True)
        raise MachineryError("rustc timed out on a case")
    errors, codes, fd = [], [], False
    for line in p.stderr.decode(errors="replace").splitlines():
        try:
            m = json.loads(line)
        except Exception:
            if line.strip() and p.returncode != 0:
                errors.append(line.strip()[:300])
            continue
        if m.get("level") in ("error", "error: internal compiler error"):
            errors.append(m.get("message", "")[:300])
            if m.get("code"):
                codes.append(m["code"].get("code"))
            for sp in m.get("spans", []):
                if _span_from_derive(sp):
                    fd = True
            if not m.get("code") and any(m.get("message", "").startswith(d) for d in derive_messages()):
                fd = True
    shutil.rmtree(tdir, ignore_errors=True)
    ok = p.returncode == 0
    if any(("e2tmp" in e and ("No such file" in e or "temp dir" in e)) or "No space left" in e for e in errors):
        raise MachineryError("rustc failed for an environmental reason, not a verdict: %s" % errors[:2])
    if not ok and not errors:
        errors.append("rustc exited %d: %s" % (p.returncode, p.stderr.decode(errors="replace")[-300:]))
    v = Verdict(ok, errors, codes, fd)
    if use_cache:
        os.makedirs(cdir, exist_ok=True)
        with open(cpath + ".tmp%d" % os.getpid(), "w") as f:
            json.dump(v.to_json() | {"errors": errors, "codes": codes}, f)
        os.replace(cpath + ".tmp%d" % os.getpid(), cpath)
    return v


def compile_many(cases, workers=None):
    """cases: list of dict(src=..., cfgs=(), crate_type=..., externs=...). Returns list of Verdict."""
    build_anchor()
    # identical cases are compiled once
    uniq = {}
    for c in cases:
        k = json.dumps([c["src"], list(c.get("cfgs", ())), c.get("crate_type", "lib"), sorted((c.get("externs") or {}).items()),
                        c.get("edition", "2021"), list(c.get("extra", ()))])
        uniq.setdefault(k, c)
    with cf.ThreadPoolExecutor(max_workers=workers or NCPU) as ex:
        futs = {k: ex.submit(compile_one, c["src"], c.get("cfgs", ()), c.get("crate_type", "lib"),
                             c.get("externs"), c.get("edition", "2021"), True, c.get("extra", ())) for k, c in uniq.items()}
        done = {k: f.result() for k, f in futs.items()}
    out = []
    for c in cases:
        k = json.dumps([c["src"], list(c.get("cfgs", ())), c.get("crate_type", "lib"), sorted((c.get("externs") or {}).items()),
                        c.get("edition", "2021"), list(c.get("extra", ()))])
        out.append(done[k])
    return out


def run_program(src, externs=None, timeout=120, cfgs=()):
    """Compile `src` as a binary with the real derive and run it. Returns (compiled_ok, verdict, returncode, stdout, stderr)."""
    dylib = build_anchor()
    key = sha(src)[:24]
    tdir = os.path.join(WORK, "e2run", key)
    os.makedirs(tdir, exist_ok=True)
    srcp = os.path.join(tdir, "main.rs")
    with open(srcp, "w") as f:
        f.write(src)
    exe = os.path.join(tdir, "prog")
    cmd = ["rustc", "--edition", "2021", "--crate-type", "bin", "--crate-name", "prog", "-C", "debug-assertions=on",
           "-C", "overflow-checks=on", "-A", "warnings", "-o", exe, "--extern", "enum_tools=" + dylib]
    for k, v in (externs or {}).items():
        cmd += ["--extern", "%s=%s" % (k, v)]
    for c in cfgs:
        cmd += ["--cfg", c]
    cmd.append(srcp)
    p = subprocess.run(cmd, stdout=subprocess.PIPE, stderr=subprocess.PIPE, env=ENV, timeout=900)
    if p.returncode != 0:
        shutil.rmtree(tdir, ignore_errors=True)
        return False, p.stderr.decode(errors="replace")[-3000:], None, "", ""
    try:
        q = subprocess.run([exe], stdout=subprocess.PIPE, stderr=subprocess.PIPE, env=ENV, timeout=timeout)
        rc, so, se = q.returncode, q.stdout.decode(errors="replace"), q.stderr.decode(errors="replace")
    except subprocess.TimeoutExpired:
        rc, so, se = -999, "", "timeout"
    shutil.rmtree(tdir, ignore_errors=True)
    return True, "", rc, so, se
