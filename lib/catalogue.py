"""Snapshot of what /repo/src/lib.rs documents (pinned commit): features, parameters, mode values.

Only documented behaviour is demanded (DESIGN.md §1 rule 3); this file is the single place where
the documentation is transcribed."""
import itertools

from e3 import Config

FN = ["as_str", "from_str", "into", "MAX", "MIN", "next", "next_back", "try_from"]
TRAITS = ["Debug", "Display", "FromStr", "Into", "IntoStr", "TryFrom"]
ITERS = ["iter", "names", "range"]
FEATURES = FN + TRAITS + ITERS                # the 17 user features
COMPILE_TIME = ["sorted"]
NAMEABLE = FN + ITERS                          # take name / vis
STRUCT_NAMED = ["iter", "names"]               # take struct_name
STR_MODES = ["auto", "match", "table"]         # as_str, from_str, FromStr
ITER_MODES_DOC = ["auto", "range", "next_and_back", "match", "table", "table_inline"]   # lib.rs "## iter"
VIS_VALUES = ["", "pub(crate)", "pub"]
MODED = {"as_str": STR_MODES, "from_str": STR_MODES, "FromStr": STR_MODES, "iter": ITER_MODES_DOC}

# documented parameters per feature
PARAMS = {f: set() for f in FEATURES}
for f in NAMEABLE:
    PARAMS[f] |= {"name", "vis"}
for f in MODED:
    PARAMS[f] |= {"mode"}
for f in STRUCT_NAMED:
    PARAMS[f] |= {"struct_name"}
PARAMS["sorted"] = {"name", "value"}


def iter_modes(gapless, documented_only_impl=True):
    """Mode values of iter legal on this shape. 'match' is documented but known to be rejected (D5):
    it is enumerated only where the caller asks for the documented catalogue."""
    ms = ["auto", "next_and_back", "table", "table_inline"]
    if gapless:
        ms.insert(1, "range")
    return ms


def feature_variants(f, gapless, explicit_auto=True, with_match_iter=False):
    """All documented ways to write feature f (mode values); returns list of param dicts."""
    if f in ("as_str", "from_str", "FromStr"):
        out = [{}] + [{"mode": m} for m in STR_MODES if explicit_auto or m != "auto"]
        return out
    if f == "iter":
        ms = iter_modes(gapless)
        if with_match_iter:
            ms = ms + ["match"]
        return [{}] + [{"mode": m} for m in ms if explicit_auto or m != "auto"]
    return [{}]


def legal(feats):
    """feats: list of (name, params). The documented contradictions."""
    names = [f for f, _ in feats]
    if "range" in names:
        if "iter" not in names:
            return False
        ip = dict(feats)["iter"]
        if ip.get("mode") == "table_inline":
            return False
    return True


def small_configs(k, gapless, explicit_auto=False, with_match_iter=False):
    """Every legal configuration with <= k enabled features (all documented mode values)."""
    out = []
    for n in range(0, k + 1):
        for combo in itertools.combinations(FEATURES, n):
            if "range" in combo and "iter" not in combo:
                continue
            variants = [feature_variants(f, gapless, explicit_auto, with_match_iter) for f in combo]
            for choice in itertools.product(*variants):
                feats = list(zip(combo, choice))
                if legal(feats):
                    out.append(Config(feats))
    return out


def full_config(gapless, modes=None, names=False, drop=()):
    """All 17 features; modes: dict feature->mode."""
    modes = modes or {}
    feats = []
    for f in FEATURES:
        if f in drop:
            continue
        p = {}
        if f in modes:
            p["mode"] = modes[f]
        if names and f in NAMEABLE:
            p["name"] = "zz_" + f.lower() + ("_c" if f in ("MIN", "MAX") else "")
        feats.append((f, p))
    if not legal(feats):
        return None
    return Config(feats)
