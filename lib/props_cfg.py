"""C09, C10: explicit-state enumeration of the configuration space (E1) whose classes are re-judged on
the real code (E3 runs, E2 compiles), plus bounded direct runs without canonicalisation."""
import itertools
import re

import catalogue
import e1
import e2
import enums
from common import MachineryError, Result, log
from e3 import Config, Subj
from e3check import compare_transcripts, decl_key, explore
from enums import REPRS, family_F, make_decl

SIZE_GUESS = {"i8": 1, "u8": 1, "i16": 2, "u16": 2, "i32": 4, "u32": 4, "isize": 4, "usize": 4,
              "i64": 8, "u64": 8, "i128": 16, "u128": 16}   # the derive's documented guess is not asserted; used only to pick a cover

ARCHETYPES = [
    ("g", "#[repr(i8)] pub enum E { A = 3, B = 4, C = 5, D = 6 }"),
    ("hs", "#[repr(i8)] pub enum E { A = -10, B = -5, C = -4, D = 3 }"),
    ("hl", "#[repr(u64)] pub enum E { A = 1, B = 2, C = 9 }"),
    # many runs (20 runs of two): code paths chosen by the NUMBER of runs (round 6: three seeds generated a search over the run
    # table for > 8 resp. >= 16 runs only) get their own classes
    ("hm", "#[repr(i8)] pub enum E { %s }" % ", ".join("%s = %d" % ("ABCD"[i] if i < 4 else "V%d" % i, v)
                                                      for i, v in enumerate(x for x in range(-30, 30) if x % 3 != 0))),
]


def klass(decl):
    if decl.gapless:
        return "g"
    if len(decl.runs()) > 8:
        return "hm"
    return "hs" if len(decl.variants) * SIZE_GUESS[decl.repr] <= 8 else "hl"


def run_space(res, tier, kinds=("closure",), soft=False):
    """E1 enumeration for the three archetypes. Returns {class: space result}. E1 findings are
    candidates only (rule 1): they are recorded in res.unconfirmed and confirmed by the callers."""
    low, high = (2, 11) if tier == "quick" else (12, 0)
    spaces = {}
    for k, src in ARCHETYPES:
        sp = e1.space(src, low=low, high=high, tag="arch_" + k)
        spaces[k] = sp
        res.states += sp["configs"]
        res.transitions += sp["configs"]
        res.outcome("e1:configs-accepted", sp["accepted"])
        if sp["n_rejected"]:
            res.outcome("e1:configs-rejected", sp["n_rejected"])
        if sp["n_unparsed"]:
            msg = "E1 item splitter could not parse %d expansions of archetype %s: %s" % (sp["n_unparsed"], k, sp["unparsed"][:2])
            if soft:
                # the caller does not depend on the split (it has a fallback): note it, do not fail
                res.extra.setdefault("e1_unparsed", []).append(msg)
            else:
                res.machinery_error(msg)
    res.extra["e1_space"] = {k: {x: sp[x] for x in ("gapless", "total", "configs", "accepted", "n_rejected", "n_unparsed")}
                             for k, sp in spaces.items()}
    res.extra["e1_classes_per_item"] = {k: {item: {kind: len(v) for kind, v in kinds_.items()}
                                            for item, kinds_ in sp["classes"].items()}
                                        for k, sp in spaces.items()}
    return spaces


def bind_e1(res, spaces, kinds=("own",), limit=None):
    """Token-level conformance (DESIGN.md §12.6): E1's expansion under proc_macro2's fallback vs the
    compiler-backed expansion (`rustc +nightly -Zunpretty=expanded`) for a configuration set hitting every
    distinct item text. A mismatch means E1 is not bound to the implementation: machinery error, exit 2."""
    texts = []
    for k, sp in spaces.items():
        arch = dict(ARCHETYPES)[k]
        reps = sorted(cover(sp, kinds))
        if limit:
            reps = reps[:: max(1, len(reps) // limit)]
        for ctext in reps:
            cfg = e1.cfg_from_text(ctext)
            texts.append(" ".join("#[enum_tools(%s)]" % a for a in cfg.attr_lines()) + " " + arch)
    try:
        out = e1.conformance(texts)
    except MachineryError as e:
        res.machinery_error("token-level conformance unavailable: %s" % str(e)[:500])
        return 0
    bad = [(t, d) for t, (ok, d) in zip(texts, out) if not ok]
    for t, d in bad[:3]:
        res.machinery_error("E1 expansion differs from the compiler-backed expansion for `%s`: %s" % (t[:200], d))
    n = len(texts) - len(bad)
    res.validated += n
    res.extra["e1_conformance"] = {"compared": len(texts), "identical": n, "tokens": sum(d for ok, d in out if ok)}
    return n


def cover(sp, kinds=("closure",)):
    """Configurations hitting every (item, class) pair of the given class kinds: the union of the
    first (simplest) representative of each class."""
    reps = {}
    for item, ks in sp["classes"].items():
        for kind in kinds:
            for c in ks.get(kind, []):
                reps.setdefault(c["rep"], []).append((item, kind, c["hash"]))
    return reps


# ------------------------------------------------------------------------------------------ C09

def c09(tier):
    res = Result("C09", tier, "explicit-state enumeration of all legal feature/mode configurations (real generator in-process), "
                               "closure-text classes re-run on the real derive + direct runs of all configurations with <= k features")
    spaces = run_space(res, tier)
    bind_e1(res, spaces, limit=12)
    covers = {k: cover(sp, ("closure",)) for k, sp in spaces.items()}
    for k, sp in spaces.items():
        if sp["infer"]:
            res.machinery_error("generated items call methods whose resolution may depend on the derive's trait impls; "
                                "closure classes unusable: %s" % sp["infer"][:3])
    res.extra["cover_sizes"] = {k: len(v) for k, v in covers.items()}
    if tier == "quick":
        decls = (family_F("i8", 2, 2, 2) + family_F("i64", 2, 1, 2) + family_F("u16", 1, 2, 1) + enums.family_L("i8") + enums.family_M("i8", 2)
                 + enums.family_D("i8", 6, "zero", min_n=4) + enums.family_R("i8")[1:2]
                 + [enums.make_decl("i16", [x for x in range(-30, 30) if x % 3 != 0][::-1], salt=4)])
        bounds = dict(x1_depth=2, x2_extra=1, x2_cap=5, range_x1_depth=1, range_x2_extra=1)
        kmax = 2
    else:
        decls = []
        for r in enums.ALL_REPRS:
            decls += family_F(r, 2, 2, 2)
        for r in ("i8", "u8", "i64"):
            decls += family_F(r, 3, 3, 3)
        for r in ("u8", "i16", "u64"):
            decls += enums.family_L(r)
        for r in ("i8", "u16", "i64"):
            decls += enums.family_D(r, 7, "zero")
        bounds = dict(x1_depth=2, x2_extra=2, x2_cap=7, range_x1_depth=2, range_x2_extra=1)
        kmax = 3
    subs = []
    for i, d in enumerate(decls):
        big = len(d.variants) > 64
        b = dict(bounds)
        if big:
            b.update(x1_depth=1, x2_extra=0, x2_cap=2, range_x1_depth=1, range_x2_extra=0, range_pair_step=2003)
        if len(d.variants) > 6 and not big:
            b.update(range_x1_depth=1)
        if 16 < len(d.variants) <= 64:
            b.update(x1_depth=1, x2_extra=0, x2_cap=3, range_x1_depth=1, range_x2_extra=0, range_pair_step=41)
        for j, ctext in enumerate(sorted(covers[klass(d)])):
            subs.append(Subj("c%05d_%03d" % (i, j), d, e1.cfg_from_text(ctext), bounds=b, weight=60 if big else None,
                             sweep_full=False))
    ncover = len(subs)
    # step 3: no canonicalisation — every legal configuration with <= k features, run directly
    direct_decls = [make_decl("i8", [4, 6, 3, 5], salt=2), make_decl("i8", [-5, 3, -10, -4], salt=5),
                    make_decl("u64", [9, 1, 2], salt=3)]
    for i, d in enumerate(direct_decls):
        for j, cfg in enumerate(catalogue.small_configs(kmax, d.gapless)):
            if not cfg.feats:
                continue
            subs.append(Subj("k%d_%05d" % (i, j), d, cfg, bounds=bounds, sweep_full=False))
    # `sorted(..)` is a configuration too: co-enabled with the string / iterator features in every mode on declarations it accepts
    from props_e3 import sorted_name_subjects, sorted_subjects
    k = 0
    for ms in ({}, {"as_str": "table", "from_str": "table", "FromStr": "table", "iter": "table"},
               {"as_str": "match", "from_str": "match", "FromStr": "match", "iter": "next_and_back"}):
        for extra in ([], ["names"]):
            feats = [("as_str", {"mode": ms["as_str"]} if ms else {}), ("from_str", {"mode": ms["from_str"]} if ms else {}),
                     ("FromStr", {"mode": ms["FromStr"]} if ms else {}), ("iter", {"mode": ms["iter"]} if ms else {}), "next", "try_from"] + extra
            for sj in sorted_name_subjects(feats, "n%d" % k, bounds=bounds, sweep_full=False) + sorted_subjects(feats, "v%d" % k, bounds=bounds, sweep_full=False):
                sj.sid = sj.sid[:2] + "x" + sj.sid[2:] + "_" + str(k)       # group = declaration (the numeric part), see compare below
                subs.append(sj)
            k += 1
    merged = explore(res, "%s/c09" % tier, subs)
    # pairwise equality between configurations, independent of the reference model
    by = {s.sid: s for s in subs}
    compare_transcripts(res, merged, subs, decl_key, "configuration-dependent-behaviour")
    res.family = {"cover_decls": len(decls), "direct_decls": len(direct_decls)}
    res.bounds = {"e1_onoff_thinning": "<=2 or >=11 of the 12 on/off features" if tier == "quick" else "none (all 4.7M configurations)",
                  "direct_k": kmax, "iter_bounds": bounds}
    res.extra["cover_subjects"] = ncover
    res.extra["direct_subjects"] = len(subs) - ncover
    res.rule = ("states = configurations enumerated in-process with the real generator (3 archetypes) + explorer states of the "
                "cover/direct subjects; traces_validated_against_impl = subjects (cover representative x enum, direct configuration "
                "x enum) built with the real proc-macro and run; non-trivial as in C01-C08")
    for s in subs[:2] + subs[ncover:ncover + 2]:
        res.sample(s.describe())
    for k, cv in covers.items():
        res.sample({"archetype": k, "cover_config": sorted(cv)[len(cv) // 2]})
    return res.finish()


# ------------------------------------------------------------------------------------------ C10

BASE_ENUMS = {
    ("i8", True): [3, 4, 5, 6], ("i8", False): [-10, -5, -4, 3],
    ("u16", True): [300, 301, 302], ("u16", False): [0, 1, 700, 65535],
    ("i64", True): [-1, 0, 1], ("i64", False): [enums.I64_MIN, -1, 0, enums.I64_MAX],
}


def enum_src(repr_, values, attr_lines, vis="pub", extra=""):
    d = make_decl(repr_, values, renames=False)
    d.vis = vis
    return "use enum_tools::EnumTools;\n" + d.render(attr_lines, indent="") + "\n" + extra


def c10(tier):
    res = Result("C10", tier, "explicit-state enumeration of all legal configurations (real generator in-process): accepted, no duplicate "
                               "definition, closed reference graph; every distinct local context compiled by rustc; all configurations with "
                               "<= k features built and run; all attribute splittings expanded and compared")
    spaces = run_space(res, tier)
    bind_e1(res, spaces)
    # T2: E1 candidates, each confirmed on the real toolchain before being reported
    cases = []
    for k, sp in spaces.items():
        arch = dict(ARCHETYPES)[k]
        for kind in ("reject", "dup", "open"):
            for ctext, msg in sp[kind][:10]:
                cfg = e1.cfg_from_text(ctext)
                src = "use enum_tools::EnumTools;\n#[derive(Clone, Copy, EnumTools)]\n#[enum_tools(%s)]\n%s\n" % (cfg.attr_text(), arch)
                v = e2.compile_one(src)
                res.validated += 1
                if not v.ok:
                    res.violation({"kind": "documented-configuration-rejected", "config": cfg.describe(), "archetype": k,
                                   "errors": v.errors[:2]}, {"e1": msg, "rustc": v.to_json()}, {"repro.rs": src + "fn main() {}\n"})
                else:
                    res.unconfirmed.append({"e1": kind, "config": ctext, "msg": msg})
        # each distinct local context is compiled by rustc inside one concrete configuration
        reps = cover(sp, ("local",))
        for ctext in sorted(reps):
            cfg = e1.cfg_from_text(ctext)
            src = "use enum_tools::EnumTools;\n#[derive(Clone, Copy, EnumTools)]\n#[enum_tools(%s)]\n%s\n" % (cfg.attr_text(), arch)
            cases.append(("local-context", k, cfg, src))
    res.extra["local_context_configs"] = len(cases)
    # T1 bounded, real toolchain only: documented catalogue incl. iter(mode = "match"), names/vis parameters
    kmax = 2 if tier == "quick" else 3
    t1_reprs = ["i8", "u16", "i64"]
    # (a) all documented mode values of each moded feature, alone (this is where iter(mode="match") lives)
    for (r, g), vals in BASE_ENUMS.items():
        for f, modes in catalogue.MODED.items():
            for m in modes:
                if f == "iter" and m == "range" and not g:
                    continue
                cfg = Config([(f, {"mode": m})])
                cases.append(("documented-mode", "%s/%s" % (r, "gapless" if g else "holes"), cfg,
                              enum_src(r, vals, cfg.attr_lines())))
        # (b) name / vis / struct_name on every feature that documents them
        for f in catalogue.NAMEABLE:
            need_iter = [("iter", {})] if f == "range" else []
            for vis in [None] + catalogue.VIS_VALUES:
                for nm in (None, "zz_custom"):
                    p = {}
                    if vis is not None:
                        p["vis"] = vis
                    if nm:
                        p["name"] = nm
                    if not p:
                        continue
                    cfg = Config(need_iter + [(f, p)])
                    cases.append(("name-vis", "%s/%s" % (r, "gapless" if g else "holes"), cfg, enum_src(r, vals, cfg.attr_lines())))
        # every documented parameter of a feature at once, for every mode value
        for f in catalogue.NAMEABLE:
            need_iter = [("iter", {})] if f == "range" else []
            for m in (catalogue.MODED.get(f) or [None]):
                if f == "iter" and (m == "match" or (m == "range" and not g)):
                    continue
                for vis in catalogue.VIS_VALUES:
                    p_ = {"name": "zz_all", "vis": vis}
                    if m:
                        p_["mode"] = m
                    if f in catalogue.STRUCT_NAMED:
                        p_["struct_name"] = "ZzAll"
                    cfg = Config(need_iter + [(f, p_)])
                    cases.append(("all-params", "%s/%s" % (r, "gapless" if g else "holes"), cfg, enum_src(r, vals, cfg.attr_lines())))
        for f in catalogue.STRUCT_NAMED:
            cfg = Config([(f, {"struct_name": "ZzStruct"})])
            cases.append(("struct_name", "%s/%s" % (r, "gapless" if g else "holes"), cfg, enum_src(r, vals, cfg.attr_lines())))
        # struct_name of one iterator feature next to the other one (default / custom), and used from user code
        for ip, np_ in (({"struct_name": "ZzI"}, {}), ({}, {"struct_name": "ZzN"}), ({"struct_name": "ZzI"}, {"struct_name": "ZzN"}),
                        ({"struct_name": "ZzI", "name": "zz_iter"}, {"struct_name": "ZzN", "name": "zz_names"})):
            for extra_f in ([], ["range"]):
                cfg = Config([("iter", ip), ("names", np_)] + extra_f)
                use = "fn _use(_: Option<%s>, _: Option<%s>) {}\n" % (ip.get("struct_name", "EIter"), np_.get("struct_name", "ENames"))
                cases.append(("struct_name-pair", "%s/%s" % (r, "gapless" if g else "holes"), cfg, enum_src(r, vals, cfg.attr_lines(), extra=use)))
        # every pair of nameable features, both with custom names (no collision, dependants follow the names)
        for f1, f2 in itertools.combinations(catalogue.NAMEABLE, 2):
            feats = [(f1, {"name": "zz_a"}), (f2, {"name": "zz_b"})]
            if "range" in (f1, f2) and "iter" not in (f1, f2):
                feats = [("iter", {})] + feats
            cfg = Config(feats)
            cases.append(("name-pair", "%s/%s" % (r, "gapless" if g else "holes"), cfg, enum_src(r, vals, cfg.attr_lines())))
        # (c) sorted
        for inner in ("sorted", "sorted()", "sorted(name)", "sorted(value)", "sorted(name, value)", "sorted(value, name)"):
            src = enum_src(r, sorted(vals), [inner])
            # identifiers V0.. are ascending in declaration order for sorted(vals)
            cases.append(("sorted", r, Config([]), src.replace("#[enum_tools()]", "#[enum_tools(%s)]" % inner)))
    # (d) full set and full set minus <= 2 features, explicit table / match / auto modes, default and custom names
    drops = [()] + [(f,) for f in catalogue.FEATURES]
    if tier == "thorough":
        drops += list(itertools.combinations(catalogue.FEATURES, 2))
    for (r, g), vals in BASE_ENUMS.items():
        if tier == "quick" and r == "u16":
            continue
        for modes in ({}, {"as_str": "table", "from_str": "table", "FromStr": "table", "iter": "table"},
                      {"as_str": "match", "from_str": "match", "FromStr": "match", "iter": "next_and_back"}):
            for dr in drops:
                for names in (False, True):
                    if names and len(dr) > 0 and tier == "quick":
                        continue
                    cfg = catalogue.full_config(g, modes, names=names, drop=dr)
                    if cfg is None:
                        continue
                    cases.append(("full-minus-%d" % len(dr), "%s/%s" % (r, "gapless" if g else "holes"), cfg,
                                  enum_src(r, vals, cfg.attr_lines())))
    verdicts = e2.compile_many([{"src": c[3]} for c in cases])
    for (what, where, cfg, src), v in zip(cases, verdicts):
        res.states += 1
        res.transitions += 1
        res.validated += 1
        res.outcome("compile:" + what + (":ok" if v.ok else ":REJECTED"))
        if not v.ok:
            key = {"kind": "documented-configuration-rejected", "what": what, "config": cfg.describe(), "where": where,
                   "errors": v.errors[:2]}
            modes = {f: p.get("mode") for f, p in cfg.feats if p.get("mode")}
            if len(cfg.feats) == 1 and cfg.feats[0][1].get("mode"):
                key["feature"], key["mode"] = cfg.feats[0][0], cfg.feats[0][1]["mode"]
            res.violation(key, {"rustc": v.to_json(), "source": src}, {"repro.rs": src + "fn main() {}\n"})
        else:
            res.nontrivial.add(cfg.key())
    # the enum's own name against the identifiers the generated code introduces itself - generic parameters, local bindings, imported
    # names (seed T6-r7m1: `fn find<P>` captures an enum called `P`): every single capital letter and the usual generic names, every
    # feature in three mode assignments + table_inline, gapless and with holes, compile-only
    NAMES = [c for c in "ABCDEFGHIJKLMNOPQRSTUVWXYZ"] + ["Acc", "Fn", "Pred", "Idx", "Rhs", "Lhs", "Out", "St", "Fut", "Ret", "Args", "Func", "Item", "Iter", "Key",
                                                         "Val", "Err", "Res", "Init", "Fold", "It", "Inner", "Output", "Error", "This", "Me"]
    name_cases = []
    for nm in NAMES:
        for g, body in ((True, "Aa = 1, Bb = 2, Cc = 3"), (False, "Aa = -1, Bb = 2, Cc = 9")):
            cfgs_ = [catalogue.full_config(g, m) for m in ({}, {"as_str": "table", "from_str": "table", "FromStr": "table", "iter": "table"},
                                                          {"as_str": "match", "from_str": "match", "FromStr": "match", "iter": "next_and_back"})]
            cfgs_.append(Config([("iter", {"mode": "table_inline"}), "names", "Debug", "Display", "TryFrom", "FromStr", "IntoStr", "Into"]))
            for cfg in cfgs_:
                name_cases.append((nm, cfg, "#![allow(warnings)]\nuse enum_tools::EnumTools;\n#[derive(Clone, Copy, EnumTools)]\n#[enum_tools(%s)]\n#[repr(i16)]\npub enum %s { %s }\n"
                                   % (cfg.attr_text(), nm, body)))
    for (nm, cfg, src), v in zip(name_cases, e2.compile_many([{"src": c[2]} for c in name_cases])):
        res.states += 1
        res.transitions += 1
        res.validated += 1
        res.outcome("compile:enum-name:%s" % ("ok" if v.ok else "REJECTED"))
        if not v.ok:
            res.violation({"kind": "documented-configuration-rejected", "what": "enum-name", "enum_name": nm, "config": cfg.describe(), "errors": v.errors[:2]},
                          {"rustc": v.to_json()}, {"repro.rs": src + "fn main() {}\n"})
    # T1 (e): every legal configuration with <= k features built AND run (each item satisfies its own guarantee)
    subs = []
    bounds = dict(x1_depth=2, x2_extra=1, x2_cap=5, range_x1_depth=1, range_x2_extra=1, consumers=False)
    for i, ((r, g), vals) in enumerate(sorted(BASE_ENUMS.items())):
        d = make_decl(r, vals, salt=i)
        for j, cfg in enumerate(catalogue.small_configs(kmax, g, explicit_auto=True)):
            if cfg.feats:
                subs.append(Subj("t%d_%05d" % (i, j), d, cfg, bounds=bounds, sweep_full=False))
    res.extra["small_config_subjects"] = len(subs)
    explore(res, "%s/c10" % tier, subs)
    # splitting over several attributes == one attribute (E1 expansions textually identical)
    split_cases = 0
    decl_texts = []
    expect = []
    for k, arch in ARCHETYPES:
        g = spaces[k]["gapless"]
        small = catalogue.small_configs(3 if tier == "quick" else 4, g)
        if tier == "quick":
            small = small[::7]
        else:
            small = small[::3]
        for cfg in small:
            n = len(cfg.feats)
            if n < 2:
                continue
            single = cfg.attr_text()
            base_idx = len(decl_texts)
            decl_texts.append("#[enum_tools(%s)] %s" % (single, arch))
            parts = set()
            for assign in itertools.product(range(min(3, n)), repeat=n):
                groups = [[i for i in range(n) if assign[i] == gi] for gi in range(3)]
                groups = tuple(tuple(x) for x in groups if x)
                if len(groups) < 2 or groups in parts:
                    continue
                parts.add(groups)
                c2 = Config(cfg.feats, split=[list(x) for x in groups])
                decl_texts.append(" ".join("#[enum_tools(%s)]" % a for a in c2.attr_lines()) + " " + arch)
                expect.append((len(decl_texts) - 1, base_idx, c2))
        # the full configuration: all 2^16 bipartitions (quick: 2^10 of them)
        full = catalogue.full_config(g, {})
        n = len(full.feats)
        base_idx = len(decl_texts)
        decl_texts.append("#[enum_tools(%s)] %s" % (full.attr_text(), arch))
        step = 1 if tier == "thorough" else 64
        for mask in range(1, (1 << (n - 1)), step):
            a = [i for i in range(n) if mask >> i & 1]
            b = [i for i in range(n) if not mask >> i & 1]
            c2 = Config(full.feats, split=[a, b])
            decl_texts.append(" ".join("#[enum_tools(%s)]" % x for x in c2.attr_lines()) + " " + arch)
            expect.append((len(decl_texts) - 1, base_idx, c2))
    outs = e1.expand_many(decl_texts)
    for idx, base_idx, c2 in expect:
        split_cases += 1
        res.states += 1
        res.transitions += 1
        if outs[idx] != outs[base_idx]:
            # candidate: confirm with the real toolchain (must at least compile when the single form does)
            src = "use enum_tools::EnumTools;\n#[derive(Clone, Copy, EnumTools)]\n%s\nfn main() {}\n" % decl_texts[idx]
            v = e2.compile_one(src)
            res.violation({"kind": "split-attributes-differ", "split": c2.attr_lines(), "single": decl_texts[base_idx][:200],
                           "real_compile_ok": v.ok},
                          {"split_expansion": outs[idx][1][:600], "single_expansion": outs[base_idx][1][:600]},
                          {"repro.rs": src})
    res.outcome("split:identical", split_cases)
    res.extra["split_cases"] = split_cases
    res.rule = ("states = configurations enumerated in-process (E1) + rustc-judged cases + attribute splittings + explorer states of the "
                "small-configuration subjects; non-trivial = distinct configurations accepted by the real toolchain")
    res.bounds = {"direct_k": kmax, "full_minus": 1 if tier == "quick" else 2, "split_features": 3 if tier == "quick" else 4}
    for c in cases[:3] + cases[len(cases) // 2:len(cases) // 2 + 2]:
        res.sample({"what": c[0], "where": c[1], "config": c[2].describe()})
    res.nontrivial_count += len(res.nontrivial)
    return res.finish()


CHECKS = {"C09": c09, "C10": c10}


# ------------------------------------------------------------------------------------------ C19

PROBE_HEAD = """#![allow(warnings)]
use enum_tools::EnumTools;
use core::marker::PhantomData;
%(decl)s
type R = %(repr)s;
fn same<T>(_: PhantomData<T>, _: PhantomData<T>) {}
fn is_iter<I: Iterator<Item = E> + DoubleEndedIterator + ExactSizeIterator + core::iter::FusedIterator>(_: I) {}
fn is_names<I: Iterator<Item = &'static str> + DoubleEndedIterator + ExactSizeIterator + core::iter::FusedIterator>(_: I) {}
"""

PROBES = {
    "into": ["const C_INTO_A: R = E::V0.into();", "const C_INTO_B: R = E::into(E::V1);", "static S_INTO: [R; 2] = [E::V0.into(), E::V1.into()];",
             "const fn cf_into(e: E) -> R { e.into() }", "fn p_into() { let _: fn(E) -> R = E::into; let _a: [u8; { (E::V0.into() == E::V0.into()) as usize }] = [0]; }"],
    "MIN": ["const C_MIN: E = E::MIN;", "static S_MIN: E = E::MIN;", "fn p_min() { let _: E = <E>::MIN; }"],
    "MAX": ["const C_MAX: E = E::MAX;", "static S_MAX: E = E::MAX;", "fn p_max() { let _: E = <E>::MAX; }"],
    "next": ["fn p_next() { let _: fn(E) -> Option<E> = E::next; let _: Option<E> = E::V0.next(); }"],
    "next_back": ["fn p_next_back() { let _: fn(E) -> Option<E> = E::next_back; let _: Option<E> = E::V0.next_back(); }"],
    "try_from": ["fn p_try_from() { let _: fn(R) -> Option<E> = E::try_from; let _: Option<E> = E::try_from(0 as R); }"],
    "from_str": ["fn p_from_str() { let _: fn(&str) -> Option<E> = E::from_str; let _: Option<E> = E::from_str(\"x\"); let s = String::from(\"y\"); let _: Option<E> = E::from_str(&s); }"],
    "as_str": ["fn p_as_str() { let _: fn(E) -> &'static str = E::as_str; let s: &'static str = E::V0.as_str(); static KEEP: std::sync::OnceLock<&'static str> = std::sync::OnceLock::new(); let _ = KEEP.set(s); }"],
    "iter": ["fn p_iter() { let _: fn() -> EIter = E::iter; is_iter(E::iter()); let mut it: EIter = E::iter(); let _: Option<E> = it.next(); let _: usize = it.len(); }"],
    "range": ["fn p_range() { let _: fn(E, E) -> EIter = E::range; is_iter(E::range(E::V0, E::V1)); }"],
    "names": ["fn p_names() { let _: fn() -> ENames = E::names; is_names(E::names()); let mut it: ENames = E::names(); let _: Option<&'static str> = it.next_back(); }"],
    "Debug": ["fn p_debug() { fn d<T: core::fmt::Debug>(_: T) {} d(E::V0); let _ = format!(\"{:?}\", E::V0); }"],
    "Display": ["fn p_display() { fn d<T: core::fmt::Display>(_: T) {} d(E::V0); let _: String = E::V0.to_string(); }"],
    "FromStr": ["fn p_fromstr() { let _: Result<E, ()> = <E as core::str::FromStr>::from_str(\"\"); let _: Result<E, ()> = \"x\".parse::<E>(); same(PhantomData::<<E as core::str::FromStr>::Err>, PhantomData::<()>); }"],
    "Into": ["fn p_into_tr() { let _: R = <R as From<E>>::from(E::V0); let _: R = From::from(E::V0); fn g<T: Into<R>>(_: T) {} g(E::V0); }"],
    "IntoStr": ["fn p_intostr() { let _: &'static str = <&'static str as From<E>>::from(E::V0); fn g<T: Into<&'static str>>(_: T) {} g(E::V0); }"],
    "TryFrom": ["fn p_tryfrom() { let _: Result<E, ()> = <E as TryFrom<R>>::try_from(0 as R); same(PhantomData::<<E as TryFrom<R>>::Error>, PhantomData::<()>); fn g<T: TryInto<E, Error = ()>>(_: T) {} g(0 as R); }"],
}


def probe_source(d, cfg):
    parts = [PROBE_HEAD % {"decl": d.render(cfg.attr_lines(), indent=""), "repr": d.repr}]
    for f, _p in cfg.feats:
        parts += PROBES.get(f, [])
    return "\n".join(parts) + "\n"


def c19(tier):
    res = Result("C19", tier, "exhaustive enumeration of (feature, mode, shape, repr) x signature ascription probes judged by rustc, plus explicit-state enumeration of "
                               "all configurations showing one signature class per user-visible item")
    spaces = run_space(res, tier)
    bind_e1(res, spaces, limit=12)
    # (1) E1: exactly one signature text per user-visible item over all configurations of an archetype,
    #     and the same text for the gapless and the with-holes archetype of the same repr
    sig = {}
    for k, sp in spaces.items():
        for item, kinds in sp["classes"].items():
            uservis = item.startswith("zz_") or item.startswith("impl ") or item in ("EIter", "ENames")
            if not uservis:
                continue
            cl = kinds.get("sig", [])
            sig[(k, item)] = cl
            res.states += 1
            if len(cl) != 1:
                # candidate: confirm with a probe on the real toolchain for each representative
                confirmed = False
                arch = dict(ARCHETYPES)[k]
                for c in cl:
                    cfg = e1.cfg_from_text(c["rep"], zz=False)
                    m = re.search(r"repr\((\w+)\)", arch)
                    vals = {"g": [3, 4, 5, 6], "hs": [-10, -5, -4, 3], "hl": [1, 2, 9], "hm": [x for x in range(-30, 30) if x % 3 != 0]}[k]
                    d = make_decl(m.group(1), vals, renames=False)
                    v = e2.compile_one(probe_source(d, cfg))
                    res.validated += 1
                    if not v.ok:
                        confirmed = True
                        res.violation({"kind": "signature-depends-on-configuration", "item": item, "config": cfg.describe(), "errors": v.errors[:2]},
                                      {"signatures": [x["text"] for x in cl], "rustc": v.to_json()}, {"repro.rs": probe_source(d, cfg) + "fn main() {}\n"})
                if not confirmed:
                    res.unconfirmed.append({"item": item, "archetype": k, "signatures": [x["text"] for x in cl][:4]})
                    # different token text with the same meaning is possible; a *const* difference is not
                    texts = [x["text"] for x in cl]
                    if len(set(("const fn" in t) for t in texts)) > 1:
                        c0 = e1.cfg_from_text(cl[0]["rep"], zz=False)
                        res.violation({"kind": "const-depends-on-configuration", "item": item, "archetype": k},
                                      {"signatures": texts[:4], "configs": [x["rep"] for x in cl][:4]},
                                      {"repro.rs": "// signature of %s differs between configurations:\n// %s\nfn main() {}\n" % (item, texts[:2])})
    for (k, item), cl in sig.items():
        for other in ("hs", "hm"):      # the archetypes that share g's repr
            if k == "g" and (other, item) in sig and cl and sig[(other, item)]:
                a, b = cl[0]["text"], sig[(other, item)][0]["text"]
                res.transitions += 1
                if a != b:
                    res.violation({"kind": "signature-depends-on-shape", "item": item, "shape": other}, {"gapless": a, "holes": b},
                                  {"repro.rs": "// signature of %s: gapless `%s` vs with holes (%s) `%s`\nfn main() {}\n" % (item, a, other, b)})
    # (2) probes on the real toolchain
    cases = []
    reprs = enums.ALL_REPRS
    for r in reprs:
        for g in (True, False):
            vals = [3, 4, 5] if g else [1, 5, 100]
            d = make_decl(r, vals, renames=False)
            modesets = [{}, {"as_str": "table", "from_str": "table", "FromStr": "table", "iter": "table"},
                        {"as_str": "match", "from_str": "match", "FromStr": "match", "iter": "next_and_back"}]
            if g:
                modesets.append({"iter": "range"})
            for ms in modesets:
                cfg = catalogue.full_config(g, ms)
                cases.append(("full", d, cfg))
            if tier == "thorough" or r in ("i8", "u64", "usize", "i128"):
                for cfg in catalogue.small_configs(1, g, explicit_auto=True):
                    if cfg.feats:
                        cases.append(("single", d, cfg))
                # table_inline cannot be combined with range: probe it on its own
                cases.append(("single", d, Config([("iter", {"mode": "table_inline"})])))
                cases.append(("pair", d, Config([("iter", {"mode": "table"}), "range"])))
                cases.append(("pair", d, Config([("iter", {"mode": "next_and_back"}), "range"])))
    # the documented signatures hold for every vis value (seed C19-r6m2: MIN/MAX typed as the repr when vis = "" was written out) ...
    for r in ("i8", "u64", "isize") if tier == "quick" else reprs:
        for g in (True, False):
            d = make_decl(r, [3, 4, 5] if g else [1, 5, 100], renames=False)
            for vis in catalogue.VIS_VALUES:
                for ms in ({}, {"as_str": "table", "from_str": "table", "FromStr": "table", "iter": "table"}):
                    base = catalogue.full_config(g, ms)
                    feats = [(f, dict(p, vis=vis) if f in catalogue.NAMEABLE and not (f in ("iter", "names") and vis == "") else p) for f, p in base.feats]
                    cases.append(("vis", d, Config(feats)))
    # ... and for every enum shape (seed C19-r6m1: `From<repr>` instead of `TryFrom<repr>` for an enum that covers its whole repr)
    shapes = []
    for r in ("i8", "u8"):
        shapes += enums.family_L(r, renames=False)
    for r in reprs:
        shapes.append(make_decl(r, [enums.hi(r), enums.lo(r)], renames=False))
        shapes.append(make_decl(r, [enums.lo(r) + 1, enums.lo(r)], renames=False))
    shapes.append(make_decl("i16", [x for x in range(-30, 30) if x % 3 != 0], renames=False))
    shapes.append(make_decl("u32", [0, 1, 3, 4, 6], renames=False))
    shapes.append(make_decl("u16", list(range(0, 300)), renames=False))
    for d in shapes:
        for ms in ({}, {"as_str": "table", "from_str": "table", "FromStr": "table", "iter": "table"},
                   {"as_str": "match", "from_str": "match", "FromStr": "match", "iter": "next_and_back"}):
            cases.append(("shape", d, catalogue.full_config(d.gapless, ms)))
    vs = e2.compile_many([{"src": probe_source(d, cfg)} for _w, d, cfg in cases])
    for (w, d, cfg), v in zip(cases, vs):
        res.states += 1
        res.transitions += 1
        res.validated += 1
        res.outcome("probe:%s:%s" % (w, "ok" if v.ok else "FAILED"))
        if v.ok:
            res.nontrivial.add(cfg.key() + d.repr)
        else:
            res.violation({"kind": "documented-signature-probe-fails", "config": cfg.describe(), "repr": d.repr, "gapless": d.gapless, "errors": v.errors[:3]},
                          {"rustc": v.to_json()}, {"repro.rs": probe_source(d, cfg) + "fn main() {}\n"})
    res.rule = ("states = user-visible items whose signature classes were enumerated over all configurations + probe programs (each its own crate: const/static "
                "contexts, fn-pointer ascriptions, associated types, trait bounds); non-trivial = distinct probe programs accepted by rustc")
    res.bounds = {"reprs": len(reprs), "shapes": 2, "mode_sets": 4}
    for w, d, cfg in cases[:2] + cases[-2:]:
        res.sample({"what": w, "repr": d.repr, "config": cfg.describe()})
    return res.finish()


CHECKS["C19"] = c19
