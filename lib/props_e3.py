"""C01, C03–C08: bounded exhaustive exploration of the generated code against the reference model."""
import enums
from common import Result
from e3 import Config, Subj
from e3check import compare_transcripts, decl_key, explore
from enums import ALL_REPRS, REPRS, family_A, family_D, family_F, family_H, family_L, family_M, family_P, family_R

QUICK_L_REPRS = ["i8", "u8", "i16", "u64"]
THOROUGH_F3_REPRS = ["i8", "u8", "i16", "u16", "i64", "u64", "i128", "usize"]


def base_decls(tier, with_H=True, quick_reprs=None, renames=True, f3_reprs=None):
    out = []
    if tier == "quick":
        for r in (quick_reprs or ALL_REPRS):
            out += family_F(r, 2, 2, 2, renames=renames)
        for r in QUICK_L_REPRS:
            out += family_L(r, renames=renames)
        for r in ("i8", "u16", "i64"):
            out += family_M(r, 3)
        for r in ("i16", "u32", "i64", "u64", "i128", "usize"):
            out += family_A(r)
        for r in ("i8", "u16", "i32", "u64"):
            out += family_R(r)
        for r in ("usize", "isize", "i64", "u128"):
            out += family_P(r)
        out += family_D("i8", 7, "zero", renames=renames) + family_D("u8", 6, "top", renames=renames) + family_D("i64", 6, "bottom", renames=renames)
    else:
        for r in ALL_REPRS:
            out += family_D(r, 8 if r in ("i8", "u8", "i64") else 7, "zero", renames=renames)
            if r in ("i8", "u8", "i64", "u128", "usize"):
                out += family_D(r, 6, "top", renames=renames) + family_D(r, 6, "bottom", renames=renames)
        for r in ("i32", "u32", "i64", "u64", "i128", "u128", "isize", "usize"):
            out += family_P(r)
        for r in ALL_REPRS:
            out += family_A(r)
            out += family_R(r)
        for r in ALL_REPRS:
            out += family_M(r, 3, full=r in ("i8", "i64", "u8"))
        for r in ALL_REPRS:
            out += family_F(r, 2, 2, 2, renames=renames)
        for r in (f3_reprs or THOROUGH_F3_REPRS):
            out += family_F(r, 3, 3, 3, renames=renames)
        for r in ALL_REPRS:
            out += family_L(r, renames=renames)
        if with_H:
            for r in ("i16", "u16"):
                out += family_H(r)
    return out


def sorted_subjects(feats, prefix, **opts):
    """Ascending declarations under `sorted(value)` / `sorted(name, value)`: the compile-time check must not influence what
    is generated (e.g. by skipping the sort of the parser's value map)."""
    from enums import EnumDecl, Variant, lo, hi
    subs = []
    k = 0
    for r in ("i8", "i64", "u16"):
        sets = [[lo(r), lo(r) + 1, 5, hi(r)], list(range(3, 9)), [0, 2, 3, 7, 8, 9, 20], list(range(10, 50)), [1]]
        if REPRS[r][1]:
            sets.append([-7, -5, -4, -1, 0, 3])
        for vals in sets:
            variants = [Variant("V%03d" % i, lit=str(v)) for i, v in enumerate(vals)]
            d = EnumDecl(r, variants, tag={"family": "sorted-asc"})
            for sf in ({"value": None}, {"name": None, "value": None}):
                subs.append(Subj("%s%03d" % (prefix, k), d, Config(list(feats) + [("sorted", sf)]), **opts))
                k += 1
    return subs


def sorted_name_subjects(feats, prefix, **opts):
    """`sorted(name)` constrains the DECLARATION order of the names only: the discriminants may go any way, and every table
    the derive builds is in value order. Names ascending in declaration order, values not."""
    from enums import EnumDecl, Variant
    subs = []
    k = 0
    for r, valsets in (("u8", ([4, 1, 3, 5, 2], [9, 0], [3, 2, 1], [7, 200, 8, 100])), ("i16", ([5, -3, 4, -4, 0, 300], [2, 1, 0, -1, -2, -3, -4]))):
        for vals in valsets:
            names = ["Alpha", "Beta", "Delta", "Epsilon", "Gamma", "Omega", "Zeta"]
            variants = [Variant(names[i], lit=str(v)) for i, v in enumerate(vals)]
            d = EnumDecl(r, variants, tag={"family": "sorted-name"})
            subs.append(Subj("%s%03d" % (prefix, k), d, Config(list(feats) + [("sorted", {"name": None})]), **opts))
            k += 1
    return subs


def family_desc(decls):
    d = {}
    for x in decls:
        k = "%s %s" % (x.tag.get("family"), x.repr)
        d[k] = d.get(k, 0) + 1
    return d


def mk_subjects(decls, cfgs, **opts):
    """cfgs: list of (suffix, Config or callable(decl)->Config or None)."""
    subs = []
    for i, d in enumerate(decls):
        for suf, c in cfgs:
            cfg = c(d) if callable(c) else c
            if cfg is None:
                continue
            o = dict(opts)
            big = len(d.variants) > 1000
            if big and suf not in [x[0] for x in cfgs[:2]]:
                continue        # 65534-variant enums: the first two configurations only (about 10 s of rustc each)
            if big:
                o["bounds"] = dict(o.get("bounds") or {}, x1_depth=1, x2_extra=0, x2_cap=2, range_x1_depth=1,
                                   range_x2_extra=0, range_pair_step=max(o.get("bounds", {}).get("range_pair_step", 0), 40000003),
                                   consumers=True)
                o["weight"] = 4000
            subs.append(Subj("s%05d%s" % (i, suf), d, cfg, **o))
    return subs


def finish_common(res, decls, subs, rule):
    res.family = family_desc(decls)
    res.rule = rule
    for s in subs[:3] + subs[len(subs) // 2: len(subs) // 2 + 2] + subs[-2:]:
        res.sample(s.describe())


# ------------------------------------------------------------------------------------------ C01

def c01(tier):
    res = Result("C01", tier, "bounded exhaustive argument sweep of the real generated code vs reference lookup")
    decls = base_decls(tier)
    a = Config(["try_from", "TryFrom", "into", "Into"])
    b = Config(["try_from", "TryFrom", "into", "Into", ("as_str", {"mode": "table"})])
    subs = mk_subjects(decls, [("a", a), ("b", b)]) + sorted_subjects(b.feats, "z")
    explore(res, "%s/c01" % tier, subs, phases=["conv"])
    if tier == "thorough":
        # every value of the 32-bit reprs, on optimised subjects (2^32 arguments x 2 entry points per enum)
        w = []
        for r in ("i32", "u32"):
            fam = family_F(r, 2, 2, 2)
            w += [fam[i] for i in (5, 27, 62)] + family_A(r)[:1] + family_L(r)[1:]
        wsubs = [Subj("w%03d" % i, d, b if i % 2 else a, sweep_full=True, sweep32=True, weight=5000) for i, d in enumerate(w)]
        explore(res, "%s/c01w" % tier, wsubs, phases=["conv"], opt=True, timeout=7200)
        res.bounds_extra = {"full_32bit_sweep_subjects": len(wsubs)}
        subs = subs + wsubs
    finish_common(res, decls, subs,
                  "states = (enum, argument) pairs: every value of 8/16-bit reprs, B(E,R) for wider ones; "
                  "non-trivial = arguments for which a variant exists (Some). transitions = calls of "
                  "try_from/TryFrom/into/Into on the real derive's output")
    res.bounds = {"args_8_16bit": "all values of the repr", "args_wide": "B(E,R) boundary/alias alphabet",
                  "args_32bit_thorough": "all 2^32 values on %d selected shapes (optimised build)" % getattr(res, "bounds_extra", {}).get("full_32bit_sweep_subjects", 0),
                  "configs": [a.describe(), b.describe()]}
    return res.finish()


# ------------------------------------------------------------------------------------------ C03

def c03(tier):
    res = Result("C03", tier, "exhaustive enumeration of (enum shape, variant, as_str mode, rendering) on the real generated code")
    decls = base_decls(tier)
    cfgs = []
    for m in ("match", "table", "auto"):
        cfgs.append((m[0], Config([("as_str", {"mode": m}), "Debug", "Display", "IntoStr"])))
    cfgs.append(("n", Config(["as_str", "names", "Debug", "Display", "IntoStr"])))   # names steers auto
    cfgs.append(("d", Config(["Debug"])))   # auto-enabled private as_str only
    # co-enabled features that bring their own helper tables (seed C03-r6m2: as_str re-used the enum table of from_str / iter when present)
    cfgs.append(("f", Config([("as_str", {"mode": "table"}), ("from_str", {"mode": "table"}), "Display"])))
    cfgs.append(("i", Config([("as_str", {"mode": "table"}), ("iter", {"mode": "table"}), "range", "IntoStr"])))
    subs = mk_subjects(decls, cfgs) + sorted_subjects(cfgs[1][1].feats, "z") + sorted_subjects(cfgs[0][1].feats, "y")
    subs += sorted_name_subjects(cfgs[1][1].feats, "x") + sorted_name_subjects(cfgs[3][1].feats, "w")
    explore(res, "%s/c03" % tier, subs, phases=["str"])
    raw_variant_probe(res, ("as",))
    finish_common(res, decls, subs,
                  "states = (enum, variant) pairs in every as_str mode; transitions = as_str/Display/Debug/IntoStr calls; "
                  "non-trivial = variants carrying a rename attribute")
    res.bounds = {"modes": ["match", "table", "auto", "auto+names", "Debug only"]}
    return res.finish()


# ------------------------------------------------------------------------------------------ C04

def c04(tier):
    res = Result("C04", tier, "exhaustive enumeration of names and single-edit neighbours against exact-match lookup, all mode pairs")
    decls = base_decls(tier, with_H=False)
    cfgs = []
    modes = ("auto", "match", "table")
    for i, mf in enumerate(modes):
        for j, mt in enumerate(modes):
            cfgs.append(("%d%d" % (i, j), Config([("from_str", {"mode": mf}), ("FromStr", {"mode": mt}), "as_str"])))
    if tier == "quick":
        # quick: all 9 pairs on F(2,2,2) for 4 reprs, the diagonal elsewhere
        full = {"i8", "u8", "i64", "u128"}
        diag = {"00", "11", "22", "12", "21"}
        subs = []
        for i, d in enumerate(decls):
            for suf, c in cfgs:
                if d.repr in full or suf in diag:
                    subs.append(Subj("s%05d_%s" % (i, suf), d, c))
    else:
        subs = mk_subjects(decls, [("_" + s, c) for s, c in cfgs])
    for suf, c in cfgs:
        subs += sorted_name_subjects(c.feats, "x%s_" % suf)
    subs += sorted_name_subjects([("from_str", {}), "names"], "xn_") + sorted_name_subjects([("FromStr", {}), "names", "as_str"], "xm_")
    merged = explore(res, "%s/c04" % tier, subs, phases=["from_str"])
    raw_variant_probe(res, ("from",))
    # with duplicate names the same variant must be chosen in every mode: compare transcript hashes per enum
    compare_transcripts(res, merged, subs, decl_key, "mode-dependent-from_str",
                        items=("from_str", "FromStr::from_str"))
    finish_common(res, decls, subs,
                  "states = (enum, string) pairs: every name, every single-edit neighbour (delete/insert/substitute/case flip), "
                  "padding, identifiers of renamed variants, pair concatenations (n<=4), hostile strings; non-trivial = strings "
                  "that equal a name")
    res.bounds = {"mode_pairs": 9, "edit_distance": 1}
    return res.finish()


# ------------------------------------------------------------------------------------------ C05

def c05(tier):
    res = Result("C05", tier, "exhaustive enumeration of (enum shape, variant) for MIN/MAX/next/next_back incl. chains")
    decls = base_decls(tier)
    cfgs = [("a", Config(["MIN", "MAX", "next", "next_back"])),
            ("b", Config(["next", "next_back"]))]       # helpers auto-enabled
    subs = mk_subjects(decls, cfgs) + sorted_subjects(cfgs[0][1].feats, "z")
    explore(res, "%s/c05" % tier, subs, phases=["order"])
    finish_common(res, decls, subs,
                  "states = (enum, variant); transitions = MIN/MAX/next/next_back calls and chain steps; "
                  "non-trivial = variants at a run boundary (successor or predecessor is not ±1)")
    return res.finish()


# ------------------------------------------------------------------------------------------ C06

def iter_cfgs(decl, with_range_variants=True):
    out = []
    modes = ["next_and_back", "table", "table_inline", "auto"]
    if decl.gapless:
        modes.insert(0, "range")
    for m in modes:
        out.append((m, Config([("iter", {"mode": m})])))
    # what steers auto
    out.append(("auto+range", Config(["iter", "range"])))
    out.append(("auto+from_str_table", Config(["iter", ("from_str", {"mode": "table"})])))
    return out


def c06(tier):
    res = Result("C06", tier, "stateless exhaustive enumeration of iterator operation histories (replay on fresh iter()) vs Vec reference")
    if tier == "quick":
        decls = []
        for r in ("i8", "u8", "i64", "u128"):
            decls += family_F(r, 2, 2, 2, renames=False)
        bounds = dict(x1_depth=3, x2_extra=2, x2_cap=8)
        ldecls = []
        for r in QUICK_L_REPRS:
            ldecls += family_L(r, renames=False)
        for r in ("i8", "u32"):
            ldecls += family_R(r)
        decls += family_D("i8", 6, "zero", renames=False)
        lbounds = dict(x1_depth=2, x2_extra=0, x2_cap=3)
    else:
        decls = []
        for r in ALL_REPRS:
            decls += family_F(r, 2, 2, 2, renames=False)
        for r in ALL_REPRS:
            decls += family_D(r, 7 if r in ("i8", "u64") else 6, "zero", renames=False)
        bounds = dict(x1_depth=3, x2_extra=3, x2_cap=8)
        deep_reprs = ("i8", "u8", "i64", "u128")      # full 12-operation alphabet to depth 4 on these
        ldecls = []
        for r in ALL_REPRS:
            ldecls += family_L(r, renames=False)
        lbounds = dict(x1_depth=3, x2_extra=0, x2_cap=3)
    subs = []
    for i, d in enumerate(decls):
        for j, (nm, c) in enumerate(iter_cfgs(d)):
            b = dict(bounds, x1_depth=4) if tier == "thorough" and d.repr in deep_reprs else bounds
            subs.append(Subj("s%05d_%d" % (i, j), d, c, bounds=b))
    for i, d in enumerate(ldecls):
        for j, (nm, c) in enumerate(iter_cfgs(d)):
            if nm == "table_inline" and len(d.variants) > 1000:
                continue
            subs.append(Subj("l%05d_%d" % (i, j), d, c, bounds=lbounds, weight=60))
    extra = []
    if tier == "thorough":
        f3 = []
        for r in ("i8", "u64"):
            f3 += family_F(r, 3, 3, 3, renames=False)
        for i, d in enumerate(f3):
            for j, (nm, c) in enumerate(iter_cfgs(d)):
                subs.append(Subj("t%05d_%d" % (i, j), d, c, bounds=dict(x1_depth=3, x2_extra=2, x2_cap=8)))
        extra = f3
        for r in ("i16", "u16"):
            for i, d in enumerate(family_H(r)):
                for j, (nm, c) in enumerate(iter_cfgs(d)):
                    if nm == "table_inline":
                        continue
                    subs.append(Subj("h%s%d_%d" % (r, i, j), d, c,
                                     bounds=dict(x1_depth=1, x2_extra=0, x2_cap=2), weight=4000))
                extra.append(d)
    for m in ("auto", "next_and_back", "table", "table_inline"):
        subs += sorted_subjects([("iter", {"mode": m})], "z" + m.replace("_", ""), bounds=dict(x1_depth=2, x2_extra=1, x2_cap=5))
    merged = explore(res, "%s/c06" % tier, subs, phases=["iter"])
    # vacuity: at full X2 depth every window [lo,hi) of the sorted list must have been reached
    short = 0
    for s in subs:
        t = merged["stats"].get(s.sid)
        if not t:
            continue
        n = t["n"]
        b = s.opts.get("bounds", {})
        if n + b.get("x2_extra", 2) <= b.get("x2_cap", 8) and t["violations"] == 0:
            if t["model_states"] < n * (n + 1) // 2 + 1:
                short += 1
    if short:
        res.machinery_error("%d subjects did not reach all n(n+1)/2+1 model states at full depth (vacuous exploration)" % short)
    res.extra["model_state_coverage_checked"] = True
    finish_common(res, decls + ldecls + extra, subs,
                  "states = operation histories (nodes of the operation tree, each replayed on a fresh iterator); transitions = "
                  "operations + len/size_hint observations + consumer runs; non-trivial = histories after which the remaining "
                  "list is shorter than the full list")
    res.bounds = {"sigma1": "next,next_back,nth/nth_back(k) k in {0,1,2,3,usize::MAX}", "x1_depth": bounds["x1_depth"],
                  "sigma2": "next,next_back,nth(1),nth_back(1)", "x2_depth": "min(n+%d, %d)" % (bounds["x2_extra"], bounds["x2_cap"]),
                  "consumers": 19, "large": lbounds}
    return res.finish()


# ------------------------------------------------------------------------------------------ C07

def range_cfgs(decl):
    out = []
    modes = ["next_and_back", "table", "auto"]
    if decl.gapless:
        modes.insert(0, "range")
    for m in modes:
        out.append((m, Config([("iter", {"mode": m}), "range"])))
    out.append(("auto+from_str_table", Config(["iter", "range", ("from_str", {"mode": "table"})])))
    return out


def c07(tier):
    res = Result("C07", tier, "all ordered variant pairs x stateless exhaustive enumeration of operation histories on range(a,b) vs Vec reference")
    if tier == "quick":
        decls = []
        for r in ("i8", "u8", "i64", "u128"):
            decls += family_F(r, 2, 2, 1, renames=False)
        decls += family_D("i8", 6, "zero", renames=False)
        bounds = dict(range_x1_depth=2, range_x2_extra=2, x2_cap=7)
        lreprs = QUICK_L_REPRS
    else:
        decls = []
        for r in ALL_REPRS:
            decls += family_F(r, 2, 2, 2, renames=False)
        for r in ("i8", "u8"):
            decls += family_F(r, 3, 3, 3, renames=False)
        for r in ALL_REPRS:
            decls += family_D(r, 7 if r in ("i8", "u64") else 6, "zero", renames=False)
        bounds = dict(range_x1_depth=3, range_x2_extra=2, x2_cap=8)
        lreprs = ALL_REPRS
    subs = []
    for i, d in enumerate(decls):
        b = dict(bounds)
        if len(d.variants) > 6:
            b.update(range_x1_depth=2, x2_cap=6)
        for j, (nm, c) in enumerate(range_cfgs(d)):
            subs.append(Subj("s%05d_%d" % (i, j), d, c, bounds=b))
    ldecls = []
    for r in lreprs:
        ldecls += family_L(r, renames=False)
    for r in (("i8", "u32") if tier == "quick" else ALL_REPRS):
        ldecls += family_R(r)
    for i, d in enumerate(ldecls):
        for j, (nm, c) in enumerate(range_cfgs(d)):
            subs.append(Subj("l%05d_%d" % (i, j), d, c, weight=80,
                             bounds=dict(range_x1_depth=1, range_x2_extra=0, x2_cap=2, range_pair_step=37 * 37)))
    for m in ("auto", "next_and_back", "table"):
        subs += sorted_subjects([("iter", {"mode": m}), "range"], "z" + m[0], bounds=dict(range_x1_depth=1, range_x2_extra=1, x2_cap=4, range_pair_step=7))
    explore(res, "%s/c07" % tier, subs, phases=["range"])
    finish_common(res, decls + ldecls, subs,
                  "states = operation histories on range(a,b) for ALL ordered pairs (a,b) of variants (large enums: endpoints, diagonal, "
                  "and every 1369th index pair by a fixed rule); non-trivial = histories that consumed at least one item")
    res.bounds = dict(bounds, pairs="all ordered pairs incl. a==b and a>b")
    return res.finish()


# ------------------------------------------------------------------------------------------ C08

def c08(tier):
    res = Result("C08", tier, "stateless exhaustive enumeration of operation histories on names() vs Vec reference, zip alignment with iter()/as_str")
    decls = base_decls(tier, with_H=False, quick_reprs=["i8", "u8", "i16", "i64", "u128", "usize"])
    cfgs = [("a", Config(["names"])),
            ("b", Config(["names", "iter", ("as_str", {"mode": "match"})])),
            ("c", Config(["names", "iter", ("as_str", {"mode": "table"})])),
            ("d", Config(["names", ("iter", {"mode": "table"}), "as_str", "from_str"]))]
    bounds = dict(x1_depth=2 if tier == "quick" else 3, x2_extra=2, x2_cap=7 if tier == "quick" else 8, w_iter=False)
    subs = []
    for i, d in enumerate(decls):
        big = len(d.variants) > 64
        for suf, c in cfgs:
            b = dict(bounds)
            if big:
                b.update(x1_depth=2, x2_extra=0, x2_cap=2)
            subs.append(Subj("s%05d%s" % (i, suf), d, c, bounds=b, weight=60 if big else None))
    subs += sorted_subjects(["names", "iter", "as_str"], "z", bounds=dict(x1_depth=2, x2_extra=1, x2_cap=5))
    subs += sorted_subjects(["names"], "y", bounds=dict(x1_depth=2, x2_extra=1, x2_cap=5))
    subs += sorted_name_subjects(["names", "iter", "as_str", "from_str"], "x", bounds=dict(x1_depth=2, x2_extra=1, x2_cap=5))
    explore(res, "%s/c08" % tier, subs, phases=["names"])
    raw_variant_probe(res, ("names", "as"))
    finish_common(res, decls, subs,
                  "states = operation histories on names(); transitions = operations, observations, consumers, zip/as_str alignment; "
                  "non-trivial = histories after which the remaining list is shorter")
    res.bounds = bounds
    return res.finish()


CHECKS = {"C01": c01, "C03": c03, "C04": c04, "C05": c05, "C06": c06, "C07": c07, "C08": c08}


# ---------------------------------------------------------------------------------- raw-identifier variants
# The documentation says "the name of the variant"; for a variant written `r#type` both "r#type" (the unchanged tree) and "type"
# are defensible, so no spelling is demanded - only that EVERY item, in EVERY mode, uses the same one (seed C08-r6m2: the name table
# unrawed the identifier, the match arms did not).
RAW_CFGS = [
    ("auto", "as_str, from_str, Debug, Display, FromStr, IntoStr, names, iter"),
    ("table", "as_str(mode = \"table\"), from_str(mode = \"table\"), FromStr(mode = \"table\"), Debug, Display, IntoStr, names, iter(mode = \"table\")"),
    ("match", "as_str(mode = \"match\"), from_str(mode = \"match\"), FromStr(mode = \"match\"), Debug, Display, IntoStr, names, iter"),
    ("mixed1", "as_str(mode = \"match\"), from_str(mode = \"table\"), FromStr(mode = \"match\"), Debug, Display, IntoStr, names, iter"),
    ("mixed2", "as_str(mode = \"table\"), from_str(mode = \"match\"), FromStr(mode = \"table\"), Debug, Display, IntoStr, names, iter"),
    ("solo_match", "as_str(mode = \"match\"), from_str(mode = \"match\"), FromStr(mode = \"match\"), Debug, Display, IntoStr"),
    ("solo_auto", "as_str, from_str"),
]
RAW_BODIES = [("g", [("r#type", 1, None), ("Plain", 2, None), ("r#fn", 3, None)]),
              ("h", [("r#type", 1, None), ("Plain", 2, None), ("r#fn", 9, None), ("r#match", 10, "r#x")])]


def _raw_body(vs):
    return ", ".join(("#[enum_tools(rename = \"%s\")] " % r if r else "") + "%s = %d" % (i, v) for i, v, r in vs)


def raw_variant_probe(res, prop_items):
    """prop_items: which observations this property owns ('as', 'from', 'names')."""
    import e2
    mods, calls = [], []
    for bk, vs in RAW_BODIES:
        body = _raw_body(vs)
        idents = [i for i, _v, _r in vs]      # declared in ascending value order: names().nth(k) belongs to the k-th variant
        for ck, attr in RAW_CFGS:
            m = "m_%s_%s" % (bk, ck)
            mods.append("mod %s { use enum_tools::EnumTools;\n #[derive(Clone, Copy, EnumTools)] #[enum_tools(%s)] #[repr(i8)] pub enum E { %s } }" % (m, attr, body))
            has = lambda f: (f + "(") in attr or (", " + f + ",") in (", " + attr + ",")
            for i, idn in enumerate(idents):
                plain = idn[2:] if idn.startswith("r#") else idn
                v = "%s::E::%s" % (m, idn)
                pre = "%s|%s|" % (m, idn)
                if has("as_str"):
                    calls.append('println!("%sas_str|{}", %s.as_str());' % (pre, v))
                if has("Display"):
                    calls.append('println!("%sDisplay|{}", %s);' % (pre, v))
                if has("Debug"):
                    calls.append('println!("%sDebug|{:?}", %s);' % (pre, v))
                if has("IntoStr"):
                    calls.append('println!("%sIntoStr|{}", <&str>::from(%s));' % (pre, v))
                if has("names"):
                    calls.append('println!("%snames|{}", %s::E::names().nth(%d).unwrap());' % (pre, m, i))
                for cand in sorted({plain, "r#" + plain, "r#x"}):
                    if has("from_str"):
                        calls.append('println!("%sfrom_str:%s|{}", matches!(%s::E::from_str("%s"), Some(x) if x as i8 == %s as i8));' % (pre, cand, m, cand, v))
                    if has("FromStr"):
                        calls.append('println!("%sFromStr:%s|{}", matches!("%s".parse::<%s::E>(), Ok(x) if x as i8 == %s as i8));' % (pre, cand, cand, m, v))
    src = "#![allow(warnings)]\n" + "\n".join(mods) + "\nfn main() {\n" + "\n".join("  " + c for c in calls) + "\n}\n"
    ok, verdict, rc, so, se = e2.run_program(src)
    res.states += len(mods)
    res.transitions += len(calls)
    if not ok:
        res.violation({"kind": "does-not-compile", "what": "raw-identifier variants", "errors": [l for l in verdict.splitlines() if l.startswith("error")][:3]},
                      {"rustc": verdict[-2000:]}, {"repro.rs": src})
        return
    if rc != 0:
        res.violation({"kind": "abort", "what": "raw-identifier variants", "stderr": se[-300:]}, {"stdout": so[-2000:]}, {"repro.rs": src})
        return
    res.validated += len(mods)
    obs = {}     # (body, ident) -> {observation kind -> {module: value}}
    for line in so.splitlines():
        p = line.split("|")
        if len(p) != 4:
            continue
        m, idn, kind, val = p
        obs.setdefault((m.split("_")[1], idn), {}).setdefault(kind, {})[m] = val
    own = {"as": ("as_str", "Display", "Debug", "IntoStr"), "names": ("names",), "from": ("from_str", "FromStr")}
    for (bk, idn), kinds in sorted(obs.items()):
        names_seen = {}
        for k in ("as_str", "Display", "Debug", "IntoStr", "names"):
            for m, val in kinds.get(k, {}).items():
                names_seen.setdefault(val, []).append("%s in %s" % (k, m))
        res.outcome("raw-variant:names-agree" if len(names_seen) == 1 else "raw-variant:names-differ")
        if len(names_seen) != 1:
            mine = any(w.split(" ")[0] in sum((own[i] for i in prop_items), ()) for ws in names_seen.values() for w in ws)
            if mine:
                res.violation({"kind": "name-items-disagree", "variant": idn, "enum": _raw_body(dict(RAW_BODIES)[bk])},
                              {"observed": {k: v[:4] for k, v in names_seen.items()}}, {"repro.rs": src})
            continue
        the_name = next(iter(names_seen))
        if "from" in prop_items:
            for k, per in kinds.items():
                if ":" not in k:
                    continue
                cand = k.split(":", 1)[1]
                for m, val in per.items():
                    want = "true" if cand == the_name else "false"
                    if val != want:
                        res.violation({"kind": "from_str-disagrees-with-name", "variant": idn, "input": cand, "name": the_name, "item": k.split(":")[0], "module": m},
                                      {"observed": val, "expected": want}, {"repro.rs": src})
