"""Enum declarations: reference evaluator of Rust's discriminant rule, rendering, families F/L/H/S.

Everything here is independent of the derive: expected discriminants are computed by the
language rule (first implicit = 0, implicit = previous + 1, explicit = literal) and are
cross-checked against the compiler (`v as repr`) in every driver run (DESIGN.md §1 rule 4).
"""
import itertools

I64_MIN, I64_MAX = -(1 << 63), (1 << 63) - 1

REPRS = {
    "i8": (8, True), "u8": (8, False), "i16": (16, True), "u16": (16, False),
    "i32": (32, True), "u32": (32, False), "i64": (64, True), "u64": (64, False),
    "i128": (128, True), "u128": (128, False), "isize": (64, True), "usize": (64, False),
}
ALL_REPRS = list(REPRS)
SIGNED = [r for r in ALL_REPRS if REPRS[r][1]]


def rmin(r):
    b, s = REPRS[r]
    return -(1 << (b - 1)) if s else 0


def rmax(r):
    b, s = REPRS[r]
    return (1 << (b - 1)) - 1 if s else (1 << b) - 1


def lo(r):
    return max(rmin(r), I64_MIN)


def hi(r):
    return min(rmax(r), I64_MAX)


def rust_str(s):
    """A Rust string literal for s (non-ASCII kept verbatim so that path is exercised)."""
    out = ['"']
    for ch in s:
        if ch == '"':
            out.append('\\"')
        elif ch == "\\":
            out.append("\\\\")
        elif ch == "\n":
            out.append("\\n")
        elif ch == "\r":
            out.append("\\r")
        elif ch == "\t":
            out.append("\\t")
        elif ch == "\0":
            out.append("\\0")
        elif ord(ch) < 0x20 or ord(ch) == 0x7f:
            out.append("\\u{%x}" % ord(ch))
        else:
            out.append(ch)
    out.append('"')
    return "".join(out)


class Variant:
    __slots__ = ("ident", "lit", "rename", "attrs", "value", "rename_form")

    def __init__(self, ident, lit=None, rename=None, attrs=()):
        self.ident = ident
        self.lit = lit          # None => implicit; else the literal text as written (e.g. "-0x10_i8")
        self.rename = rename    # None or str
        self.attrs = list(attrs)
        self.value = None       # filled by evaluate()
        self.rename_form = "#[enum_tools(rename = %s)]"

    @property
    def name(self):
        return self.ident if self.rename is None else self.rename


def parse_rust_int(text):
    """Value of an (optionally negated) Rust integer literal text, or None when it is not one."""
    t = text.strip()
    neg = False
    if t.startswith("-"):
        neg = True
        t = t[1:].strip()
    for suf in sorted(ALL_REPRS, key=len, reverse=True):
        if t.endswith(suf):
            t = t[: -len(suf)]
            break
    base = 10
    if t[:2] in ("0x", "0o", "0b"):
        base = {"0x": 16, "0o": 8, "0b": 2}[t[:2]]
        t = t[2:]
    t = t.replace("_", "")
    if not t:
        return None
    try:
        v = int(t, base)
    except ValueError:
        return None
    return -v if neg else v


class EnumDecl:
    def __init__(self, repr_, variants, name="E", vis="pub", enum_attrs=(), tag=None, attrs_pre=(), attrs_post=(),
                 repr_attr=None):
        self.attrs_pre = list(attrs_pre)     # attribute lines before #[derive]
        self.attrs_post = list(attrs_post)   # attribute lines after #[repr]/#[enum_tools]
        self.repr_attr = repr_attr           # how the repr attribute is written (default #[repr(R)])
        self.extra_derives = None            # e.g. "Clone, Copy, Default" (default: Clone, Copy only)
        self.repr = repr_
        self.variants = variants
        self.name = name
        self.vis = vis
        self.enum_attrs = list(enum_attrs)   # extra attribute lines placed on the enum
        self.tag = tag or {}
        self.evaluate()

    def evaluate(self):
        """Rust's rule. Returns True when the declaration is valid Rust for this repr
        (all discriminants distinct and representable)."""
        prev = None
        ok = True
        seen = set()
        for v in self.variants:
            if v.lit is None:
                val = 0 if prev is None else prev + 1
            else:
                val = parse_rust_int(v.lit)
                if val is None:
                    ok = False
                    val = 0
            v.value = val
            prev = val
            if val in seen or not (rmin(self.repr) <= val <= rmax(self.repr)):
                ok = False
            seen.add(val)
        self.valid = ok and len(self.variants) > 0
        return self.valid

    @property
    def in_domain(self):
        return (self.valid and 1 <= len(self.variants) <= 65534
                and all(I64_MIN <= v.value <= I64_MAX for v in self.variants))

    def sorted_variants(self):
        return sorted(self.variants, key=lambda v: v.value)

    def runs(self):
        vals = sorted(v.value for v in self.variants)
        runs = []
        b = l = vals[0]
        for x in vals[1:]:
            if x != l + 1:
                runs.append((b, l))
                b = x
            l = x
        runs.append((b, l))
        return runs

    @property
    def gapless(self):
        return len(self.runs()) == 1

    def render(self, attr_lines, derive="EnumTools", extra_derives="Clone, Copy", indent="    ",
               repr_first=False):
        """attr_lines: list of strings, each the inside of one #[enum_tools(...)] attribute."""
        out = []
        for a in self.attrs_pre:
            out.append(indent + a)
        out.append("%s#[derive(%s, %s)]" % (indent, self.extra_derives or extra_derives, derive))
        attrs = ["#[enum_tools(%s)]" % a for a in attr_lines]
        rep = self.repr_attr or "#[repr(%s)]" % self.repr
        lines = ([rep] + attrs) if repr_first else (attrs + [rep])
        for a in self.enum_attrs:
            out.append(indent + a)
        for l in lines:
            out.append(indent + l)
        for a in self.attrs_post:
            out.append(indent + a)
        out.append("%s%s enum %s {" % (indent, self.vis + " " if self.vis else "", self.name))
        for v in getattr(self, "variants_render", None) or self.variants:
            pre = ""
            for a in v.attrs:
                pre += a + (" " if not a.startswith("//") else "\n" + indent + "    ")
            if v.rename is not None:
                pre += v.rename_form % rust_str(v.rename) + " "
            if v.lit is None:
                out.append("%s    %s%s," % (indent, pre, v.ident))
            else:
                out.append("%s    %s%s = %s," % (indent, pre, v.ident, v.lit))
        out.append("%s}" % indent)
        return "\n".join(out)

    def describe(self):
        return {
            "repr": self.repr,
            "variants": [[v.ident, v.lit, v.rename] for v in self.variants][:40],
            "n": len(self.variants),
            "runs": self.runs()[:12],
            "tag": self.tag,
        }


# ------------------------------------------------------------------------------ families

AWKWARD = ["", "\"", "\\", "{", "}", "{}", "é", "日本", "a b", "\n", "A*",
           "L" * 300, "'", "\\n", "V", "v0", " V0", "V0 ", "\0", "r#V0", "́e"]


def scramble(n):
    """A fixed non-ascending permutation of range(n) (declaration order of the sorted values)."""
    idx = list(range(n))
    return idx[1::2] + idx[0::2][::-1]


def positions(r, a, b, c):
    signed = REPRS[r][1]
    p = [lo(r) + i for i in range(a)]
    if signed:
        start = -((b + 1) // 2)
        p += [start + i for i in range(b)]
    else:
        p += [100 + i for i in range(b)]
    p += [hi(r) - c + 1 + i for i in range(c)]
    # windows never overlap for the sizes used (a,b,c <= 3)
    assert len(set(p)) == len(p), (r, a, b, c)
    return p


def make_decl(r, values_in_decl_order, salt=0, renames=True, tag=None, explicit=True):
    n = len(values_in_decl_order)
    vs = []
    for i, val in enumerate(values_in_decl_order):
        ren = None
        if renames:
            if i % 3 == 1:
                ren = AWKWARD[(salt + i // 3) % len(AWKWARD)]
            if salt % 5 == 0 and n >= 3 and i in (0, 2):
                ren = "same"
            if salt % 7 == 3 and n >= 2 and i == 1:
                ren = "V0"      # another variant's identifier
        vs.append(Variant("V%d" % i, lit=str(val) if explicit else None, rename=ren))
    return EnumDecl(r, vs, tag=tag)


def family_F(r, a, b, c, renames=True):
    """Every non-empty subset of P(r;a,b,c), declared in scrambled order with explicit discriminants."""
    p = positions(r, a, b, c)
    out = []
    salt = 0
    for mask in range(1, 1 << len(p)):
        vals = [p[i] for i in range(len(p)) if mask >> i & 1]
        perm = scramble(len(vals))
        order = [vals[j] for j in perm]
        out.append(make_decl(r, order, salt=salt, renames=renames,
                             tag={"family": "F(%d,%d,%d)" % (a, b, c), "mask": mask}))
        salt += 1
    return out


def family_L(r, renames=True):
    """Large enums: > 255 variants (index casts beyond u8), gapless and with holes."""
    out = []
    bits = REPRS[r][0]
    if bits == 8:
        full = list(range(lo(r), hi(r) + 1))
        out.append(make_decl(r, full[::-1], salt=1, renames=renames, tag={"family": "L", "kind": "full-8bit"}))
        holed = [x for x in full if x != lo(r) + 77]
        out.append(make_decl(r, holed[128:] + holed[:128], salt=2, renames=renames,
                             tag={"family": "L", "kind": "8bit-one-hole"}))
        # a late hole: the second run's index offset (200) is beyond the positive half of a signed 8-bit repr
        # (seed C11-r6m2: the generated offset literal `200i8` trips a deny-by-default lint once it carries a user span)
        holed2 = [x for x in full if x != lo(r) + 200]
        out.append(make_decl(r, holed2[100:] + holed2[:100][::-1], salt=6, renames=renames,
                             tag={"family": "L", "kind": "8bit-late-hole"}))
        return out
    g = [lo(r) + i for i in range(300)]
    out.append(make_decl(r, g[150:] + g[:150][::-1], salt=3, renames=renames, tag={"family": "L", "kind": "gapless300"}))
    signed = REPRS[r][1]
    a = [lo(r) + i for i in range(150)]
    mid = [(-60 + i) for i in range(100)] if signed else [1000 + i for i in range(100)]
    # two holes inside the mid block -> several runs, cumulative counts beyond 255 at the top
    mid = [x for x in mid if x not in (mid[40], mid[41], mid[70])]
    top = [hi(r) - 49 + i for i in range(50)]
    vals = a + mid + top
    out.append(make_decl(r, top + mid[::-1] + a, salt=4, renames=renames, tag={"family": "L", "kind": "holes297"}))
    return out


def family_H(r):
    """Huge enums (16-bit reprs): 65534 variants gapless / 65533 with one hole. Implicit where possible
    would hide nothing; explicit literals are used."""
    assert REPRS[r][0] == 16
    base = lo(r)
    g = [base + i for i in range(65534)]
    d1 = make_decl(r, g[30000:] + g[:30000], salt=11, renames=False, tag={"family": "H", "kind": "gapless65534"})
    h = [x for x in g if x != base + 40000]
    d2 = make_decl(r, h[100:] + h[:100], salt=12, renames=False, tag={"family": "H", "kind": "holes65533"})
    return [d1, d2]


def family_S(r, width=6, maxn=4, base=None, renames=False):
    """All subsets of size <= maxn of a width-wide window with ALL n! declaration orders."""
    signed = REPRS[r][1]
    if base is None:
        base = -(width // 2) if signed else 0
    window = [base + i for i in range(width)]
    out = []
    salt = 0
    for n in range(1, maxn + 1):
        for comb in itertools.combinations(window, n):
            for perm in itertools.permutations(comb):
                out.append(make_decl(r, list(perm), salt=salt, renames=renames,
                                     tag={"family": "S", "set": list(comb), "order": list(perm)}))
                salt += 1
    return out


def family_M(r, nmax=3, full=False):
    """Mixes of implicit and explicit discriminants: every sequence of <= nmax variants, each implicit or
    explicit with a value of a small boundary set, kept iff it is valid Rust inside the documented domain."""
    signed = REPRS[r][1]
    vs = [lo(r), -2, -1, 0, 1, 2, hi(r) - 1, hi(r)] if full else [lo(r), -2, 0, 1, hi(r) - 1]
    vs = [v for i, v in enumerate(vs) if rmin(r) <= v <= rmax(r) and v not in vs[:i]]
    out = []
    for n in range(1, nmax + 1):
        for combo in itertools.product([None] + vs, repeat=n):
            if all(c is not None for c in combo) and n > 1:
                continue        # all-explicit shapes are family F's business
            variants = [Variant("V%d" % i, lit=None if c is None else str(c),
                                rename=AWKWARD[(i + len(out)) % len(AWKWARD)] if (i + len(out)) % 4 == 1 else None)
                        for i, c in enumerate(combo)]
            d = EnumDecl(r, variants, tag={"family": "M(%d)" % nmax, "pattern": ["_" if c is None else c for c in combo]})
            if d.in_domain:
                out.append(d)
    return out


def family_A(r):
    """Truncation / sign aliases: discriminants that coincide when narrowed to 8, 16 or 32 bits or when the sign bit
    is dropped (a sort key, index or comparison computed through a too-narrow type confuses them)."""
    bits, signed = REPRS[r]
    sets = []
    for sh in (8, 16, 32):
        if sh < bits:
            top = sh + 1 < bits - (1 if signed else 0)
            sets.append([3, 3 + (1 << sh)] + ([3 + (2 << sh)] if top else []))
            sets.append([0, 1 << sh, 1, (1 << sh) + 1])
            if signed:
                sets.append([-1, (1 << sh) - 1, -(1 << sh) - 1 if -(1 << sh) - 1 >= rmin(r) else -2])
                sets.append([-(1 << sh), 0, 1 << sh] if (1 << sh) <= hi(r) else [-(1 << sh), 0])
    out = []
    for i, vs in enumerate(sets):
        vs = [v for j, v in enumerate(vs) if lo(r) <= v <= hi(r) and v not in vs[:j]]
        if len(vs) < 2:
            continue
        perm = scramble(len(vs))
        out.append(make_decl(r, [sorted(vs)[j] for j in perm], salt=i, tag={"family": "A", "set": sorted(vs)}))
    return out


def family_R(r):
    """Many runs: 40 runs of length 1..3 (a scan, search or table over the runs is exercised well beyond 2-3 entries),
    once from the type minimum upwards and once straddling zero / ending at the upper limit."""
    out = []
    for k, start in enumerate((lo(r), (-60 if REPRS[r][1] else 10), hi(r) - 199)):
        vals = []
        x = start
        for i in range(40):
            ln = 1 + (i * 7 + k) % 3
            for j in range(ln):
                if x + j <= hi(r):
                    vals.append(x + j)
            x += ln + 1 + (i % 2)
        vals = [v for v in vals if lo(r) <= v <= hi(r)]
        if REPRS[r][0] == 8:
            vals = vals[:120]
        perm = vals[len(vals) // 2:] + vals[:len(vals) // 2][::-1]
        out.append(make_decl(r, perm, salt=20 + k, tag={"family": "R", "runs": len(EnumDecl(r, [Variant("X%d" % i, lit=str(v)) for i, v in enumerate(vals)]).runs())}))
    return out


def family_D(r, w, where="zero", min_n=3, renames=True):
    """Dense shapes: every subset with >= min_n elements and at least one hole of a w-wide window - many short runs separated by
    1..w-2 wide holes (what the windows of family F, which are far apart, never give: seed C01-r6m2 needs >= 3 runs, a later run
    of length >= 2 and at most 4 unused values in between). where: 'zero' (straddling zero for signed reprs, from 0 for unsigned
    ones), 'top' (ending at the upper limit), 'bottom' (starting at the lower limit)."""
    if where == "zero":
        base = -(w // 2) if REPRS[r][1] else 0
    elif where == "top":
        base = hi(r) - w + 1
    else:
        base = lo(r)
    out = []
    salt = 0
    for mask in range(1, 1 << w):
        vals = [base + i for i in range(w) if mask >> i & 1]
        if len(vals) < min_n or vals[-1] - vals[0] + 1 == len(vals):
            continue
        perm = scramble(len(vals))
        out.append(make_decl(r, [vals[j] for j in perm], salt=salt, renames=renames, tag={"family": "D(%d,%s)" % (w, where), "mask": mask}))
        salt += 1
    return out


def family_P(r):
    """Discriminants at the limits of NARROWER types than the repr (a size guessed or assumed too small): the u32/i32/u16/i16
    limits under 64-bit, 128-bit and pointer-sized reprs, gapless and with holes."""
    bits, signed = REPRS[r]
    out = []
    lims = []
    for b in (16, 32):
        if b < bits:
            lims += [(1 << b) - 1, (1 << (b - 1)) - 1]
            if signed:
                lims += [-(1 << (b - 1))]
    k = 0
    for L in lims:
        for vals in ([L], [L - 1, L], [L, L + 1], [L - 2, L - 1, L], [0, L] if L > 1 else [L, 0], [L - 1, L, L + 5]):
            vals = sorted(set(v for v in vals if lo(r) <= v <= hi(r)))
            if not vals:
                continue
            perm = scramble(len(vals))
            out.append(make_decl(r, [vals[j] for j in perm], salt=30 + k, tag={"family": "P", "limit": L}))
            k += 1
    return out


def boundary_values(decl):
    """B(E,R) of DESIGN.md §4 clipped to the repr: every constant generated comparisons can mention,
    both neighbours of every run boundary, and truncation / sign aliases of members."""
    r = decl.repr
    mn, mx = rmin(r), rmax(r)
    bits = REPRS[r][0]
    s = set()
    for x in (mn, mn + 1, mn + 2, -2, -1, 0, 1, 2, mx - 2, mx - 1, mx):
        s.add(x)
    vals = [v.value for v in decl.variants]
    if len(vals) > 64:
        runs = decl.runs()
        vals = sorted(set(x for b, e in runs for x in (b, b + 1, e - 1, e)))[:400]
    for d in vals:
        for k in range(-2, 3):
            s.add(d + k)
        for sh in (8, 16, 32, 64):
            if sh < bits:
                s.add(d + (1 << sh))
                s.add(d - (1 << sh))
                s.add(d ^ (1 << (sh - 1)))
        s.add(d ^ (1 << (bits - 1)))
        s.add(-d)
        s.add(~d)
    # the driver speaks i128: u128 arguments above i128::MAX are outside the explored alphabet
    return sorted(x for x in s if mn <= x <= mx and x <= (1 << 127) - 1)
